#!/bin/bash
# seedrun_wt.sh <patch.diff> <ID> [tier] — like seedrun.sh, but applies the change to a scratch worktree of /repo
# (VERIF_REPO) with its own build directory, so that several seeds can be run in parallel and /repo stays untouched.
# seedrun.sh (which applies to /repo itself, the way the checks are used) remains the reference.
set -u
diff="$(realpath "$1")"; id="$2"; tier="${3:-quick}"
tag=$(echo "$diff" | md5sum | cut -c1-8)
wt=/tmp/seedrun-wt-$tag; bin=/tmp/seedrun-bin-$tag; ev=/tmp/seedrun-ev-$tag
git -C /repo worktree add -q --detach "$wt" HEAD || exit 2
trap 'git -C /repo worktree remove --force "$wt" >/dev/null 2>&1; rm -rf "$bin" "$ev"' EXIT
git -C "$wt" apply "$diff" || { echo "cannot apply $diff" >&2; exit 2; }
cd /verif && VERIF_REPO="$wt" VERIF_BIN="$bin" VERIF_EVIDENCE_DIR="$ev" ./check "$id" "$tier" 2>&1 | grep -E "^(VIOLATION|KNOWN|C[0-9]+ |BUILD|INFRA)" | head -${SEED_LINES:-6}
echo "exit=${PIPESTATUS[0]}"
