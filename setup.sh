#!/bin/bash
# Offline setup after a fresh restore: build the harness and both gopatch binaries from files on disk.
set -eu
cd "$(dirname "$0")"
export GOFLAGS=-mod=mod GOPROXY=off GOSUMDB=off GOTOOLCHAIN=local
./check build
echo "setup ok"
