#!/bin/bash
# selftest.sh [seed dirs...] — for every seeded change: apply it, run the property's quick check, revert.
# Expects exit 1 with a VIOLATION line, except for seeds recorded as neutralised by a fix or as not a violation
# under our reading (expects exit 0).
# Default: applies to /repo itself, one seed at a time (/repo must be clean and idle).
# SELFTEST_PAR=n: n seeds at a time, each in its own scratch worktree (seedrun_wt.sh); /repo untouched.
cd /verif || exit 2
one() {
  d=${1%/}; id=$(basename "$d"); prop=${id%%-*}
  det=$(python3 -c "import json;print(json.load(open('$d/meta.json'))['detected_by_quick_check'])" 2>/dev/null)
  cb=$(python3 -c "import json;print(json.load(open('$d/meta.json')).get('checked_by',''))" 2>/dev/null); out=$($RUNNER "$d/patch.diff" "${cb:-$prop}" 2>&1); rc=$(echo "$out" | grep -o 'exit=[0-9]*' | tail -1)
  nviol=$(echo "$out" | grep -c '^VIOLATION')
  case "$det" in
    neutralised-by-fix|yes-on-pre-fix-tree|not-a-violation-under-reading) want="exit=0" ;;
    *) want="exit=1" ;;
  esac
  status=ok; [ "$rc" = "$want" ] || status=UNEXPECTED
  printf "%-8s %-28s %-8s violations=%s %s\n" "$id" "$det" "$rc" "$nviol" "$status"
}
export -f one
if [ -n "${SELFTEST_PAR:-}" ]; then
  export RUNNER=./seedrun_wt.sh VERIF_WORKERS=${VERIF_WORKERS:-6}
  printf '%s\n' ${@:-seeded/*} | xargs -P "$SELFTEST_PAR" -I{} bash -c 'one {}' | tee /tmp/selftest.$$.out
else
  export RUNNER=./seedrun.sh
  for d in ${@:-seeded/*}; do one "$d"; done | tee /tmp/selftest.$$.out
fi
fail=0; grep -q UNEXPECTED /tmp/selftest.$$.out && fail=1; rm -f /tmp/selftest.$$.out
[ -z "$(git -C /repo status --porcelain --untracked-files=no)" ] || { echo "/repo left dirty"; fail=1; }
exit $fail
