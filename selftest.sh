#!/bin/bash
# selftest.sh [ids...] — for every seeded change: apply it to /repo, run the property's quick check, revert.
# Expects exit 1 with a VIOLATION line, except for seeds recorded as neutralised by a fix (expects exit 0).
# /repo must be clean and must not be used by anything else while this runs.
cd /verif || exit 2
fail=0
for d in ${@:-seeded/*}; do
  d=${d%/}; id=$(basename "$d"); prop=${id%%-*}
  det=$(python3 -c "import json;print(json.load(open('$d/meta.json'))['detected_by_quick_check'])")
  out=$(./seedrun.sh "$d/patch.diff" "$prop" 2>&1); rc=$(echo "$out" | grep -o 'exit=[0-9]*' | tail -1)
  nviol=$(echo "$out" | grep -c '^VIOLATION')
  case "$det" in
    neutralised-by-fix|yes-on-pre-fix-tree|not-a-violation-under-reading) want="exit=0" ;;
    *) want="exit=1" ;;
  esac
  status=ok; [ "$rc" = "$want" ] || { status=UNEXPECTED; fail=1; }
  printf "%-8s %-28s %-8s violations=%s %s\n" "$id" "$det" "$rc" "$nviol" "$status"
done
[ -z "$(git -C /repo status --porcelain --untracked-files=no)" ] || { echo "/repo left dirty"; fail=1; }
exit $fail
