#!/usr/bin/env python3
"""Regenerates MANIFEST.json from the table below (kept as a script so that the
manifest stays schema-valid while checks are added)."""
import json

CHECKS = {k: tuple(v) for k, v in json.load(open("/verif/manifest_checks.json")).items()}

NOT_YET = {
}

props = [json.loads(l) for l in open('/verif/properties.jsonl')]
checks, na = [], []
for p in props:
    pid = p['id']
    if pid in CHECKS:
        level, tech, text, note, ref = CHECKS[pid]
        checks.append({
            "property_id": pid,
            "quick_cmd": f"./check {pid} quick",
            "thorough_cmd": f"./check {pid} thorough",
            "evidence_file": f"/verif/evidence/{pid}.json",
            "replay_cmd_template": "./check replay {path}",
            "engine": "gpcheck",
            "level_claimed": {"category": level, "text": text, "design_ref": ref},
            "level_note": note,
            "technique": tech,
        })
    else:
        na.append({"property_id": pid, "reason": NOT_YET.get(pid, "check not built yet in this session (planned, see DESIGN.md §5); not claimed until it exists and is silent on the unchanged tree")})

m = {
    "version": 1,
    "setup_cmd": "./setup.sh",
    "hooks": {
        "guard": "none: no source hooks in /repo; instrumentation is added at build time with `go build -overlay` (files under /verif/overlay) and is active only when VERIF_DRIVER=1",
        "enable": "./check build  (go build -overlay /verif/bin/overlay.json adds verif_driver.go to package main; the scheduler build adds generated yield points the same way)",
        "baseline_off_cmd": "cd /repo && go test -mod=mod -json -vet=off -count=1 -timeout 25m ./...",
        "source_commits": [],
        "add_only": True,
    },
    "engines": [
        {"name": "gpcheck", "path": "/verif/mc", "serves_properties": [c["property_id"] for c in checks],
         "kind_free_text": "hand-written bounded exhaustive explorer in Go: deterministic case enumeration sharded over worker subprocesses, reference models/oracles per property, every case executed against the real patch package (linked via replace) or the real CLI (in-process overlay driver / real binary)"},
    ],
    "checks": checks,
    "not_applicable": na,
    "notes": "All checks rebuild gpcheck, gopatch.real and gopatch.drv from /repo's working tree on every invocation (./check). Known findings: /verif/known_findings.txt. Seeded property-breaking changes: /verif/seeded/.",
}
json.dump(m, open('/verif/MANIFEST.json', 'w'), indent=1)
print("claimed:", [c["property_id"] for c in checks])
