#!/bin/bash
# run_thorough.sh [ids...] — every thorough tier in turn against $VERIF_REPO (default /repo), own build directory;
# meant for `vp run --with-repo -- bash -c 'VERIF_REPO=$VP_RUN_REPO ./run_thorough.sh'`. Prints one summary line per check.
export VERIF_BIN=${VERIF_BIN:-$PWD/bin-thorough} VERIF_EVIDENCE_DIR=${VERIF_EVIDENCE_DIR:-$PWD/evidence-thorough}
mkdir -p "$VERIF_EVIDENCE_DIR"
ids=${@:-C01 C02 C03 C04 C05 C06 C07 C08 C09 C10 C11 C12 C13 C14 C15 C16 C17 C18 C19}
for id in $ids; do
  s=$(date +%s)
  ./check $id thorough > thorough_$id.log 2>&1; rc=$?
  echo "$id rc=$rc $(( $(date +%s) - s ))s $(tail -1 thorough_$id.log)"
done
