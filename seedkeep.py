#!/usr/bin/env python3
"""seedkeep.py <PROP> <variant> <detected: yes|no|after-strengthening> <needs...>
Copies a confirmed sub-agent change from /tmp/seed/out into /verif/seeded/<PROP>-<variant>/ with meta.json."""
import sys, os, shutil, json, glob
prop, var, detected = sys.argv[1:4]
needs = " ".join(sys.argv[4:])
import os as _os
src = _os.environ.get("SEEDDIR","/tmp/seed/out") + f"/{prop}/{var}"
dst = f"/verif/seeded/{prop}-" + _os.environ.get("SEEDNAME", var)
os.makedirs(dst, exist_ok=True)
for f in glob.glob(src + "/*"):
    if os.path.basename(f).startswith("run_"): continue
    shutil.copy(f, dst)
demo = "demo.sh" if os.path.exists(dst + "/demo.sh") else "demo_test.go"
meta = {
 "property": prop,
 "origin": "independent sub-agent given only the property text and a scratch worktree",
 "needs_to_manifest": needs,
 "demonstration": demo,
 "confirmed_by": f"/verif/seedconfirm.sh {prop} {var}: fresh worktree; demo passes on the pinned tree; with patch.diff applied `go build ./...` ok, `go test -vet=off -count=1 ./...` passes, demo fails",
 "check_run": f"/verif/seedrun.sh /verif/seeded/{prop}-{var}/patch.diff {prop} quick  (git apply in /repo, ./check {prop} quick, git checkout)",
 "detected_by_quick_check": detected,
}
json.dump(meta, open(dst + "/meta.json", "w"), indent=1)
print("kept", dst)
