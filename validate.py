#!/usr/bin/env python3-vt
"""Validate MANIFEST.json and every evidence file against the given schemas."""
import json, sys, glob, jsonschema
ok = True
m = json.load(open('/verif/MANIFEST.json'))
jsonschema.validate(m, json.load(open('/root/.vp/MANIFEST.schema.json')))
es = json.load(open('/root/.vp/EVIDENCE.schema.json'))
props = [json.loads(l)['id'] for l in open('/verif/properties.jsonl')]
claimed = [c['property_id'] for c in m['checks']]
na = [c['property_id'] for c in m.get('not_applicable', [])]
for p in props:
    if (p in claimed) == (p in na):
        print("property", p, "must be exactly one of claimed / not_applicable"); ok = False
for c in m['checks']:
    f = c['evidence_file']
    try:
        e = json.load(open(f)); jsonschema.validate(e, es)
        if e['level'] != c['level_claimed']['category']:
            print(f, "level mismatch"); ok = False
    except Exception as ex:
        print("evidence", f, "invalid:", str(ex)[:200]); ok = False
print("OK" if ok else "PROBLEMS")
sys.exit(0 if ok else 1)
