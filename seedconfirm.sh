#!/bin/bash
# seedconfirm.sh <ID> <variant>  — confirm a sub-agent's seeded change in a scratch worktree:
# compiles, pinned suite passes, demo fails with the change and passes without. Prints a summary line.
set -u
export GOFLAGS=-mod=mod GOPROXY=off GOSUMDB=off GOTOOLCHAIN=local
id="$1"; v="$2"; src="${SEEDDIR:-/tmp/seed/out}/$id/$v"; wt="/tmp/seedconfirm-wt-$id-$v"
git -C /repo worktree add -q --detach "$wt" HEAD || exit 2
cleanup() { git -C /repo worktree remove --force "$wt" >/dev/null 2>&1; }
trap cleanup EXIT
demo() { # run the demonstration against $wt; returns its exit status
  if [ -f "$src/demo.sh" ]; then bash "$src/demo.sh" "$wt" >/dev/null 2>&1; return $?; fi
  dir=$(head -1 "$src/demo_test.go" | grep -oE '[a-z][a-z/]*/' | head -1); dir=${dir:-patch/}
  cp "$src/demo_test.go" "$wt/$dir/zz_demo_test.go"
  (cd "$wt" && go test -vet=off -count=1 "./$dir" >/dev/null 2>&1); rc=$?
  rm -f "$wt/$dir/zz_demo_test.go"; return $rc
}
demo; clean_rc=$?
(cd "$wt" && git apply "$src/patch.diff") || { echo "$id/$v: patch does not apply"; exit 1; }
(cd "$wt" && go build ./... ) >/dev/null 2>&1; build_rc=$?
(cd "$wt" && go test -vet=off -count=1 ./... ) >/dev/null 2>&1; suite_rc=$?
demo; mut_rc=$?
echo "$id/$v: demo_on_pristine=$clean_rc build=$build_rc suite=$suite_rc demo_with_change=$mut_rc"
[ $clean_rc -eq 0 ] && [ $build_rc -eq 0 ] && [ $suite_rc -eq 0 ] && [ $mut_rc -ne 0 ]
