// Package canon computes a canonical text form of go/ast trees that ignores
// what the properties call layout: positions (only their validity is kept),
// comments, resolved objects and redundant parentheses.
package canon

import (
	"bytes"
	"fmt"
	"go/ast"
	"go/parser"
	"go/printer"
	"go/token"
	"reflect"
	"sort"
	"strings"
)

// Options tune the canonical form.
type Options struct {
	MaskImports bool // drop import declarations (and File.Imports)
	SortImports bool // order import specs inside each import declaration by path, name
	KeepParens  bool // do not elide ParenExpr nodes (token-level identity)
}

var (
	posType      = reflect.TypeOf(token.NoPos)
	cgType       = reflect.TypeOf((*ast.CommentGroup)(nil))
	objType      = reflect.TypeOf((*ast.Object)(nil))
	scopeType    = reflect.TypeOf((*ast.Scope)(nil))
	parenType    = reflect.TypeOf((*ast.ParenExpr)(nil))
	fileType     = reflect.TypeOf(ast.File{})
	genDeclPtr   = reflect.TypeOf((*ast.GenDecl)(nil))
	ignoredField = map[string]bool{"File.Imports": true, "File.Unresolved": true, "File.Comments": true, "File.Scope": true,
		"File.FileStart": true, "File.FileEnd": true, "File.GoVersion": true, "File.Package": true,
		// set by the parser from layout (whether the closing brace/paren was found), not syntax
		"StructType.Incomplete": true, "InterfaceType.Incomplete": true}
)

// Node returns the canonical form of any ast value.
func Node(n any, o Options) string {
	var b strings.Builder
	w := writer{o: o, b: &b}
	w.val(reflect.ValueOf(n))
	return b.String()
}

type writer struct {
	o Options
	b *strings.Builder
}

func (w *writer) val(v reflect.Value) {
	if !v.IsValid() {
		w.b.WriteString("nil")
		return
	}
	t := v.Type()
	switch t {
	case posType:
		if v.Int() != 0 {
			w.b.WriteString("@")
		} else {
			w.b.WriteString("_")
		}
		return
	case cgType, objType, scopeType:
		w.b.WriteString("~")
		return
	case parenType:
		if !v.IsNil() && !w.o.KeepParens {
			w.val(v.Elem().FieldByName("X"))
			return
		}
	}
	switch v.Kind() {
	case reflect.Ptr, reflect.Interface:
		if v.IsNil() {
			w.b.WriteString("nil")
			return
		}
		w.val(v.Elem())
	case reflect.Slice:
		if v.Len() == 0 {
			w.b.WriteString("[]")
			return
		}
		w.b.WriteString("[")
		n := 0
		for i := 0; i < v.Len(); i++ {
			e := v.Index(i)
			if w.o.MaskImports && isImportDecl(e) {
				continue
			}
			if n > 0 {
				w.b.WriteString(" ")
			}
			n++
			w.val(e)
		}
		w.b.WriteString("]")
	case reflect.Struct:
		w.b.WriteString("(")
		w.b.WriteString(t.Name())
		if w.o.SortImports && t.Name() == "GenDecl" && token.Token(v.FieldByName("Tok").Int()) == token.IMPORT {
			w.importDecl(v)
			w.b.WriteString(")")
			return
		}
		for i := 0; i < t.NumField(); i++ {
			f := t.Field(i)
			if ignoredField[t.Name()+"."+f.Name] {
				continue
			}
			if f.Type == cgType || f.Type == objType || f.Type == scopeType {
				continue
			}
			w.b.WriteString(" ")
			w.b.WriteString(f.Name)
			w.b.WriteString("=")
			w.val(v.Field(i))
		}
		w.b.WriteString(")")
	case reflect.String:
		fmt.Fprintf(w.b, "%q", v.String())
	case reflect.Bool:
		fmt.Fprintf(w.b, "%v", v.Bool())
	case reflect.Int, reflect.Int8, reflect.Int16, reflect.Int32, reflect.Int64:
		if t == reflect.TypeOf(token.ADD) {
			w.b.WriteString(token.Token(v.Int()).String())
		} else {
			fmt.Fprintf(w.b, "%d", v.Int())
		}
	case reflect.Map:
		w.b.WriteString("map")
	default:
		fmt.Fprintf(w.b, "%v", v.Interface())
	}
}

func isImportDecl(v reflect.Value) bool {
	if v.Kind() == reflect.Interface && !v.IsNil() {
		v = v.Elem()
	}
	if v.Type() != genDeclPtr || v.IsNil() {
		return false
	}
	return v.Interface().(*ast.GenDecl).Tok == token.IMPORT
}

func (w *writer) importDecl(v reflect.Value) {
	d := v.Addr().Interface().(*ast.GenDecl)
	var specs []string
	for _, s := range d.Specs {
		is := s.(*ast.ImportSpec)
		name := ""
		if is.Name != nil {
			name = is.Name.Name
		}
		specs = append(specs, fmt.Sprintf("%s %s", is.Path.Value, name))
	}
	sort.Strings(specs)
	fmt.Fprintf(w.b, " import %v", specs)
}

// Source parses src as a Go file and returns its canonical form.
func Source(src []byte, o Options) (string, error) {
	fset := token.NewFileSet()
	f, err := parser.ParseFile(fset, "x.go", src, parser.SkipObjectResolution)
	if err != nil {
		return "", err
	}
	return Node(f, o), nil
}

// Print renders a (possibly synthetic) file with go/printer.
func Print(f *ast.File) ([]byte, error) {
	var buf bytes.Buffer
	cfg := printer.Config{Mode: printer.UseSpaces | printer.TabIndent, Tabwidth: 8}
	if err := cfg.Fprint(&buf, token.NewFileSet(), f); err != nil {
		return nil, err
	}
	return buf.Bytes(), nil
}

// Tree prints a synthetic tree and re-parses it, so that printer
// normalisations cancel out; the error is non-nil when the tree does not
// denote parseable Go.
func Tree(f *ast.File, o Options) (canon string, printed []byte, err error) {
	// go/printer prints the operand of "*" as it is (the parser never leaves a binary expression there
	// without its parentheses): a tree built by instantiation needs the grouping made explicit, or
	// printing it would not be faithful ("*(a + b)" would come out as "*a + b").
	ast.Inspect(f, func(n ast.Node) bool {
		if star, ok := n.(*ast.StarExpr); ok {
			if x, ok := star.X.(*ast.BinaryExpr); ok {
				star.X = &ast.ParenExpr{Lparen: 1, X: x, Rparen: 1}
			}
		}
		return true
	})
	printed, err = Print(f)
	if err != nil {
		return "", nil, err
	}
	canon, err = Source(printed, o)
	return canon, printed, err
}
