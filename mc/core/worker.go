package core

import (
	"bufio"
	"encoding/binary"
	"encoding/json"
	"fmt"
	"os"
	"runtime/debug"
	"strings"
	"sync"
	"sync/atomic"
	"syscall"
	"time"
)

// Msg is one line of the worker → parent protocol.
type Msg struct {
	T       string          `json:"t"` // p(rogress) s(tart, careful mode) v(iolation) hang done
	I       int64           `json:"i"`
	Case    json.RawMessage `json:"case,omitempty"`
	Outcome *Outcome        `json:"outcome,omitempty"`
	Done    *WorkerStats    `json:"done,omitempty"`
}

// WorkerStats is what a worker measured.
type WorkerStats struct {
	Generated   int64                      `json:"generated"` // cases enumerated (all shards)
	Evals       int64                      `json:"evals"`
	Skips       map[string]int64           `json:"skips"`
	Classes     map[string]int64           `json:"classes"`
	Nontrivial  int64                      `json:"nontrivial"`
	States      int64                      `json:"states"`
	Transitions int64                      `json:"transitions"`
	Validated   int64                      `json:"validated"`
	Violations  int64                      `json:"violations"`
	Truncated   bool                       `json:"truncated"`
	LastIndex   int64                      `json:"last_index"`
	Samples     []json.RawMessage          `json:"samples"`
	ClassSample map[string]json.RawMessage `json:"class_sample"`
	ViolByKey   map[string]int64           `json:"viol_by_key"`
}

// WorkerOpts configure a worker.
type WorkerOpts struct {
	Tier     string
	Shard, N int
	From     int64
	Careful  bool
	Budget   time.Duration
	HashFile string
	MaxViol  int
}

type stopGen struct{}

// SafeRun runs p.Run converting a Go panic into a violation.
func SafeRun(p *Property, env *Env, c any) (out Outcome) {
	defer func() {
		if r := recover(); r != nil {
			st := string(debug.Stack())
			// a panic with no gopatch frame on the stack happened in the harness itself
			if msg := fmt.Sprint(r); strings.HasPrefix(msg, "generator produced") || strings.HasPrefix(msg, "harness:") || (!strings.Contains(st, "github.com/uber-go/gopatch/") && !strings.HasPrefix(msg, "gopatch CLI crashed")) {
				// a defect of the harness, not of gopatch: never a verdict
				out = Outcome{Skip: "HARNESS-BUG: " + firstLineOf(msg)}
				fmt.Fprintf(os.Stderr, "HARNESS-BUG: %s\n", msg)
				return
			}
			out = Outcome{
				Violation:  fmt.Sprintf("panic: %v", r),
				FindingKey: "panic@" + PanicSite(st),
				Class:      "panic",
				Detail:     map[string]any{"stack": st},
			}
		}
	}()
	out = p.Run(env, c)
	// a run of the real binary that shadowed an in-process run disagreed with it (see props/cli.go)
	if d, _ := env.Private["divergence"].(string); d != "" {
		env.Private["divergence"] = ""
		if out.Violation == "" && out.Skip == "" {
			out.Violation = "the real binary and the in-process driver (mainCmd.Run) disagree — what runMain does around Run is part of the tool:\n" + d
			out.FindingKey = "real-binary-differs-from-driver"
		}
	}
	return out
}

func firstLineOf(s string) string {
	if i := strings.IndexByte(s, '\n'); i >= 0 {
		return s[:i]
	}
	return s
}

// PanicSite extracts the innermost gopatch frame of a stack trace.
func PanicSite(stack string) string {
	for _, ln := range strings.Split(stack, "\n") {
		ln = strings.TrimSpace(ln)
		if strings.HasPrefix(ln, "github.com/uber-go/gopatch/") || strings.HasPrefix(ln, "main.") {
			if i := strings.LastIndex(ln, "("); i > 0 {
				ln = ln[:i]
			}
			ln = strings.TrimPrefix(ln, "github.com/uber-go/gopatch/")
			return ln
		}
	}
	return "unknown"
}

// NewEnv builds the worker environment with a fresh scratch directory.
func NewEnv(tier string) (*Env, func(), error) {
	base := "/dev/shm"
	if st, err := os.Stat(base); err != nil || !st.IsDir() {
		base = os.TempDir()
	}
	dir, err := os.MkdirTemp(base, "verif.")
	if err != nil {
		return nil, nil, err
	}
	verif := os.Getenv("VERIF_DIR")
	if verif == "" {
		verif = "/verif"
	}
	env := &Env{Tier: tier, Scratch: dir, Verif: verif, BinDir: binDir(verif), Repo: RepoDir(), Private: map[string]any{}}
	return env, func() { os.RemoveAll(dir) }, nil
}

func binDir(verif string) string {
	if b := os.Getenv("VERIF_BIN"); b != "" {
		return b
	}
	return verif + "/bin"
}

// RepoDir is the checkout under test: /repo unless VERIF_REPO names another one.
func RepoDir() string {
	if r := os.Getenv("VERIF_REPO"); r != "" {
		return r
	}
	return "/repo"
}

// capAddressSpace caps the address space so that a runaway allocation kills this process only.
func capAddressSpace() {
	var lim syscall.Rlimit
	lim.Cur, lim.Max = 6<<30, 6<<30
	_ = syscall.Setrlimit(syscall.RLIMIT_AS, &lim)
}

// WorkerMain runs one shard and speaks the protocol on stdout.
func WorkerMain(p *Property, o WorkerOpts) int {
	capAddressSpace()

	env, cleanup, err := NewEnv(o.Tier)
	if err != nil {
		fmt.Fprintln(os.Stderr, "worker:", err)
		return 2
	}
	defer cleanup()

	w := bufio.NewWriterSize(os.Stdout, 1<<16)
	var mu sync.Mutex
	send := func(m Msg, flush bool) {
		b, _ := json.Marshal(m)
		mu.Lock()
		w.Write(b)
		w.WriteByte('\n')
		if flush {
			w.Flush()
		}
		mu.Unlock()
	}

	var cur, curStart atomic.Int64
	cur.Store(-1)
	var stp atomic.Pointer[WorkerStats] // what has been measured so far (sent along when the watchdog ends the process)
	hang := 30 * time.Second
	if p.HangSeconds > 0 {
		hang = time.Duration(p.HangSeconds) * time.Second
	}
	go func() {
		for {
			time.Sleep(50 * time.Millisecond)
			i := cur.Load()
			if i < 0 {
				continue
			}
			send(Msg{T: "p", I: i}, true)
			if st := curStart.Load(); st != 0 && time.Since(time.Unix(0, st)) > hang {
				// the main goroutine is stuck inside the case: its statistics are stable
				if part := stp.Load(); part != nil {
					send(Msg{T: "partial", I: i, Done: part}, true)
				}
				send(Msg{T: "hang", I: i}, true)
				cleanup()
				os.Exit(3)
			}
		}
	}()

	if p.Setup != nil {
		curStart.Store(0)
		if err := p.Setup(env); err != nil {
			fmt.Fprintln(os.Stderr, "worker setup:", err)
			return 2
		}
	}

	st := &WorkerStats{Skips: map[string]int64{}, Classes: map[string]int64{}, ClassSample: map[string]json.RawMessage{}, ViolByKey: map[string]int64{}}
	stp.Store(st)
	var hashes []uint64
	start := time.Now()
	var idx int64 = -1
	maxViol := o.MaxViol
	if maxViol == 0 {
		maxViol = 200
	}

	func() {
		defer func() {
			if r := recover(); r != nil {
				if _, ok := r.(stopGen); ok {
					return
				}
				panic(r)
			}
		}()
		p.Gen(o.Tier, func(c any) {
			idx++
			if idx < o.From || int(idx%int64(o.N)) != o.Shard {
				return
			}
			if o.Budget > 0 && time.Since(start) > o.Budget {
				st.Truncated = true
				idx--
				panic(stopGen{})
			}
			cur.Store(idx)
			curStart.Store(time.Now().UnixNano())
			if o.Careful {
				send(Msg{T: "s", I: idx}, true)
			}
			out := SafeRun(p, env, c)
			curStart.Store(0)
			st.LastIndex = idx
			if out.Skip != "" {
				st.Skips[out.Skip]++
				return
			}
			st.Evals++
			if out.States == 0 {
				out.States = 1
			}
			if out.Transitions == 0 {
				out.Transitions = 1
			}
			if out.Validated == 0 {
				out.Validated = 1
			}
			st.States += int64(out.States)
			st.Transitions += int64(out.Transitions)
			st.Validated += int64(out.Validated)
			cls := out.Class
			if cls == "" {
				cls = "ok"
			}
			st.Classes[cls]++
			var js []byte
			getJS := func() []byte {
				if js == nil {
					js, _ = json.Marshal(c)
				}
				return js
			}
			if out.Nontrivial {
				hashes = append(hashes, Hash64(getJS()))
			}
			if o.Shard == 0 && len(st.Samples) < 3 && (out.Nontrivial || st.Evals > 50) {
				st.Samples = append(st.Samples, getJS())
			}
			if _, seen := st.ClassSample[cls]; !seen && len(st.ClassSample) < 12 {
				st.ClassSample[cls] = getJS()
			}
			if out.Violation != "" {
				st.Violations++
				st.ViolByKey[out.FindingKey]++
				// at most 4 replayable violations per finding key and worker
				if st.ViolByKey[out.FindingKey] <= 4 && len(st.ViolByKey) <= maxViol {
					send(Msg{T: "v", I: idx, Case: getJS(), Outcome: &out}, true)
				}
			}
		})
	}()
	st.Generated = idx + 1
	cur.Store(-1)

	// distinct non-trivial cases: hashes are merged by the parent
	if o.HashFile != "" {
		f, err := os.Create(o.HashFile)
		if err == nil {
			bw := bufio.NewWriter(f)
			var buf [8]byte
			for _, h := range hashes {
				binary.LittleEndian.PutUint64(buf[:], h)
				bw.Write(buf[:])
			}
			bw.Flush()
			f.Close()
		}
	}
	st.Nontrivial = int64(len(hashes))
	send(Msg{T: "done", Done: st}, true)
	return 0
}
