package core

import (
	"os/exec"
	"syscall"
)

func procAttr() *syscall.SysProcAttr {
	return &syscall.SysProcAttr{Setpgid: true, Pdeathsig: syscall.SIGKILL}
}

// killGroup kills whatever is left of the process group of cmd.
func killGroup(cmd *exec.Cmd) {
	if cmd.Process != nil {
		_ = syscall.Kill(-cmd.Process.Pid, syscall.SIGKILL)
	}
}
