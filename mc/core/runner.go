package core

import (
	"bufio"
	"context"
	"encoding/binary"
	"encoding/json"
	"fmt"
	"io"
	"os"
	"os/exec"
	"path/filepath"
	"runtime"
	"sort"
	"strconv"
	"strings"
	"sync"
	"time"
)

type foundViolation struct {
	Index   int64
	Case    json.RawMessage
	Outcome Outcome
}

// RunProperty is the parent: it shards the universe over worker
// subprocesses, attributes hangs and crashes to cases, confirms violations by
// isolated replay, writes the evidence file and returns the exit status.
func RunProperty(p *Property, tier string, self string) int {
	startWall := time.Now()
	verif := os.Getenv("VERIF_DIR")
	if verif == "" {
		verif = "/verif"
	}
	seed := 0
	if s := os.Getenv("VERIF_SEED"); s != "" {
		seed, _ = strconv.Atoi(s)
	}
	nw := runtime.NumCPU()
	if s := os.Getenv("VERIF_WORKERS"); s != "" {
		nw, _ = strconv.Atoi(s)
	}
	if p.MaxWorkers > 0 && nw > p.MaxWorkers {
		nw = p.MaxWorkers
	}
	if p.Serial {
		nw = 1
	}
	if nw < 1 {
		nw = 1
	}
	budget := 240 * time.Second
	if tier == "thorough" {
		budget = 40 * time.Minute
	}
	if s := os.Getenv("VERIF_BUDGET_S"); s != "" {
		if n, err := strconv.Atoi(s); err == nil {
			budget = time.Duration(n) * time.Second
		}
	}

	tmp, err := os.MkdirTemp("", "verifrun.")
	if err != nil {
		fmt.Fprintln(os.Stderr, err)
		return 2
	}
	defer os.RemoveAll(tmp)

	var mu sync.Mutex
	var viols []foundViolation
	total := WorkerStats{Skips: map[string]int64{}, Classes: map[string]int64{}, ClassSample: map[string]json.RawMessage{}, ViolByKey: map[string]int64{}}
	infraErr := ""

	var wg sync.WaitGroup
	for sh := 0; sh < nw; sh++ {
		wg.Add(1)
		go func(sh int) {
			defer wg.Done()
			from := int64(0)
			careful := false
			carefulUntil := int64(-1)
			part := 0
			hangs := 0
			for attempt := 0; attempt < 200; attempt++ {
				if time.Since(startWall) > budget+30*time.Second || hangs >= 6 {
					// out of budget, or this shard keeps hanging: stop here and say so
					mu.Lock()
					total.Truncated = true
					if total.LastIndex == 0 || from < total.LastIndex {
						total.LastIndex = from
					}
					mu.Unlock()
					return
				}
				part++
				hf := filepath.Join(tmp, fmt.Sprintf("h%d.%d", sh, part))
				remaining := budget - time.Since(startWall)
				if remaining < time.Second {
					remaining = time.Second
				}
				args := []string{"worker", p.ID, tier, strconv.Itoa(sh), strconv.Itoa(nw),
					"--from", strconv.FormatInt(from, 10), "--budget", strconv.Itoa(int(remaining.Seconds())), "--hashfile", hf}
				if careful {
					args = append(args, "--careful")
				}
				cmd := exec.Command(self, args...)
				cmd.Stderr = os.Stderr
				cmd.SysProcAttr = procAttr()
				out, _ := cmd.StdoutPipe()
				if err := cmd.Start(); err != nil {
					mu.Lock()
					infraErr = err.Error()
					mu.Unlock()
					return
				}
				var lastP, lastS, hangAt int64 = -1, -1, -1
				var done, partial *WorkerStats
				rd := bufio.NewReaderSize(out, 1<<20)
				for {
					line, err := rd.ReadBytes('\n')
					if len(line) > 0 {
						var m Msg
						if json.Unmarshal(line, &m) == nil {
							switch m.T {
							case "p":
								lastP = m.I
							case "s":
								lastS = m.I
							case "partial":
								partial = m.Done
							case "hang":
								hangAt = m.I
							case "v":
								mu.Lock()
								viols = append(viols, foundViolation{m.I, m.Case, *m.Outcome})
								mu.Unlock()
							case "done":
								done = m.Done
							}
						}
					}
					if err != nil {
						break
					}
				}
				io.Copy(io.Discard, out)
				werr := cmd.Wait()
				killGroup(cmd)
				if done != nil {
					mu.Lock()
					mergeStats(&total, done, sh == 0)
					mu.Unlock()
					if careful && !done.Truncated && done.LastIndex < carefulUntil {
						// should not happen: careful window not finished but done
					}
					return
				}
				// the worker died without finishing
				if partial != nil && hangAt >= 0 {
					partial.Truncated = false
					mu.Lock()
					mergeStats(&total, partial, false)
					mu.Unlock()
				}
				switch {
				case hangAt >= 0:
					c := caseAt(p, tier, hangAt)
					o := Outcome{Violation: fmt.Sprintf("hang: no result after the watchdog limit (case %d)", hangAt), FindingKey: "hang", Class: "hang"}
					if p.HangKey != nil {
						if nc := p.NewCase(); json.Unmarshal(c, nc) == nil {
							o.FindingKey += p.HangKey(nc)
						}
					}
					mu.Lock()
					viols = append(viols, foundViolation{hangAt, c, o})
					mu.Unlock()
					from, careful = hangAt+1, false
					hangs++
				case careful && lastS >= 0:
					c := caseAt(p, tier, lastS)
					o := Outcome{Violation: fmt.Sprintf("crash: worker died (%v) while running case %d", werr, lastS), FindingKey: "crash", Class: "crash"}
					mu.Lock()
					viols = append(viols, foundViolation{lastS, c, o})
					mu.Unlock()
					from, careful = lastS+1, false
				default:
					// re-run from the last reported progress point, acknowledging every case
					if lastP > from {
						from = lastP
					}
					if careful { // died in careful mode before any start: infrastructure problem
						mu.Lock()
						infraErr = fmt.Sprintf("worker %d died repeatedly without starting a case: %v", sh, werr)
						mu.Unlock()
						return
					}
					careful = true
				}
			}
		}(sh)
	}
	wg.Wait()

	if infraErr != "" {
		fmt.Fprintln(os.Stderr, "INFRASTRUCTURE ERROR:", infraErr)
		return 2
	}

	// merge distinct non-trivial hashes
	distinct := map[uint64]struct{}{}
	files, _ := filepath.Glob(filepath.Join(tmp, "h*"))
	for _, f := range files {
		b, _ := os.ReadFile(f)
		for i := 0; i+8 <= len(b); i += 8 {
			distinct[binary.LittleEndian.Uint64(b[i:])] = struct{}{}
		}
	}

	// classify violations
	sort.Slice(viols, func(i, j int) bool { return viols[i].Index < viols[j].Index })
	findings, err := LoadFindings(filepath.Join(verif, "known_findings.txt"))
	if err != nil {
		fmt.Fprintln(os.Stderr, "known_findings:", err)
		return 2
	}
	known := map[string]Finding{}
	for _, f := range findings {
		if f.Status == "known" && f.Property == p.ID {
			known[f.Key] = f
		}
	}
	knownCount := map[string]int{}
	unknownByKey := map[string][]foundViolation{}
	var keys []string
	for _, v := range viols {
		if _, ok := known[v.Outcome.FindingKey]; ok && v.Outcome.FindingKey != "" {
			knownCount[v.Outcome.FindingKey] = int(total.ViolByKey[v.Outcome.FindingKey])
			continue
		}
		k := v.Outcome.FindingKey
		if _, seen := unknownByKey[k]; !seen {
			keys = append(keys, k)
		}
		unknownByKey[k] = append(unknownByKey[k], v)
	}
	// confirm by isolated replay: at most 3 per key, 30 in total
	reported := 0
	unconfirmed := 0
	for _, k := range keys {
		n := 0
		for _, v := range unknownByKey[k] {
			if n >= 3 || reported >= 30 {
				break
			}
			vf := ViolationFile{Property: p.ID, Tier: tier, Case: v.Case, Outcome: v.Outcome}
			path, err := WriteViolation(verif, vf)
			if err != nil {
				fmt.Fprintln(os.Stderr, err)
				return 2
			}
			ok := true
			for r := 0; r < 2 && ok; r++ {
				ok = replayConfirms(self, path)
			}
			if !ok {
				unconfirmed++
				os.Rename(path, path+".unconfirmed")
				fmt.Fprintf(os.Stderr, "note: violation of %s (%s) did not reproduce in isolated replay; not reported: %s\n", p.ID, v.Outcome.Violation, path+".unconfirmed")
				continue
			}
			n++
			reported++
			fmt.Printf("VIOLATION property=%s replay=%s\n", p.ID, path)
			fmt.Printf("  key=%s case#%d: %s\n", k, v.Index, firstLine(v.Outcome.Violation))
		}
		if total.ViolByKey[k] > int64(n) {
			fmt.Printf("  (%d violations with key %q in total)\n", total.ViolByKey[k], k)
		}
	}
	var kk []string
	for k := range knownCount {
		kk = append(kk, k)
	}
	sort.Strings(kk)
	for _, k := range kk {
		fmt.Printf("KNOWN-FINDING: property=%s %s (key=%s, %d cases in this run)\n", p.ID, known[k].What, k, knownCount[k])
	}

	// evidence
	samples := []any{}
	for _, s := range total.Samples {
		samples = append(samples, s)
	}
	classSamples := map[string]any{}
	for k, s := range total.ClassSample {
		classSamples[k] = s
	}
	if len(samples) == 0 {
		for _, s := range total.ClassSample {
			samples = append(samples, s)
			break
		}
	}
	cov := map[string]any{
		"evaluations":                   total.Evals,
		"distinct_nontrivial":           len(distinct),
		"rule":                          p.Rule,
		"samples":                       samples,
		"states":                        total.States,
		"transitions":                   total.Transitions,
		"traces_validated_against_impl": total.Validated,
		"exhaustive":                    !total.Truncated,
		"cases_generated":               total.Generated,
		"not_cases":                     total.Skips,
		"outcome_classes":               total.Classes,
		"distinct_outcome_classes":      len(total.Classes),
		"class_samples":                 classSamples,
		"workers":                       nw,
		"known_finding_cases":           knownCount,
		"violations_by_key":             total.ViolByKey,
		"unconfirmed_violations":        unconfirmed,
	}
	if p.Bounds != nil {
		cov["bounds"] = p.Bounds(tier)
	}
	if total.Truncated {
		cov["explanation"] = fmt.Sprintf("time budget of %v reached before the universe was exhausted; every case with index <= %d in every shard was covered", budget, total.LastIndex)
	}
	if p.Post != nil {
		p.Post(cov)
	}
	assumptions := p.Assumptions
	if assumptions == nil {
		assumptions = []string{}
	}
	ev := map[string]any{
		"property_id": p.ID,
		"tier":        tier,
		"seed":        seed,
		"level":       p.Level,
		"coverage":    cov,
		"assumptions": assumptions,
		"wall_s":      time.Since(startWall).Seconds(),
		"violations":  reported,
	}
	eb, _ := json.MarshalIndent(ev, "", " ")
	evDir := filepath.Join(verif, "evidence")
	if d := os.Getenv("VERIF_EVIDENCE_DIR"); d != "" {
		evDir = d // used when checks are run against deliberately broken trees
	}
	os.MkdirAll(evDir, 0o755)
	if err := os.WriteFile(filepath.Join(evDir, p.ID+".json"), eb, 0o644); err != nil {
		fmt.Fprintln(os.Stderr, err)
		return 2
	}
	fmt.Printf("%s %s: cases=%d evaluated=%d nontrivial_distinct=%d classes=%d violations=%d known=%d exhaustive=%v wall=%.1fs\n",
		p.ID, tier, total.Generated, total.Evals, len(distinct), len(total.Classes), reported, len(knownCount), !total.Truncated, time.Since(startWall).Seconds())
	if reported > 0 {
		return 1
	}
	for k := range total.Skips {
		if strings.HasPrefix(k, "HARNESS-BUG") {
			fmt.Fprintln(os.Stderr, "the harness itself failed on some cases (see above); this is not a verdict about the property:", k)
			return 2
		}
	}
	return 0
}

func firstLine(s string) string {
	if i := strings.IndexByte(s, '\n'); i >= 0 {
		return s[:i]
	}
	return s
}

func mergeStats(t, d *WorkerStats, first bool) {
	if d.Generated > t.Generated {
		t.Generated = d.Generated
	}
	t.Evals += d.Evals
	t.Nontrivial += d.Nontrivial
	t.States += d.States
	t.Transitions += d.Transitions
	t.Validated += d.Validated
	t.Violations += d.Violations
	if d.Truncated {
		if !t.Truncated || d.LastIndex < t.LastIndex {
			t.LastIndex = d.LastIndex
		}
		t.Truncated = true
	}
	for k, v := range d.Skips {
		t.Skips[k] += v
	}
	for k, v := range d.Classes {
		t.Classes[k] += v
	}
	for k, v := range d.ViolByKey {
		t.ViolByKey[k] += v
	}
	for k, v := range d.ClassSample {
		if _, ok := t.ClassSample[k]; !ok && len(t.ClassSample) < 16 {
			t.ClassSample[k] = v
		}
	}
	if len(t.Samples) < 3 {
		t.Samples = append(t.Samples, d.Samples...)
		if len(t.Samples) > 3 {
			t.Samples = t.Samples[:3]
		}
	}
}

// caseAt regenerates the case with the given index.
func caseAt(p *Property, tier string, at int64) (js json.RawMessage) {
	var idx int64 = -1
	defer func() {
		if r := recover(); r != nil {
			if _, ok := r.(stopGen); !ok {
				panic(r)
			}
		}
	}()
	p.Gen(tier, func(c any) {
		idx++
		if idx == at {
			js, _ = json.Marshal(c)
			panic(stopGen{})
		}
	})
	return js
}

// replayConfirms re-runs a violation file in a fresh process; a hang counts
// as a confirmation of a hang.
func replayConfirms(self, path string) bool {
	ctx, cancel := context.WithTimeout(context.Background(), 90*time.Second)
	defer cancel()
	cmd := exec.CommandContext(ctx, self, "replay", path, "--quiet")
	cmd.SysProcAttr = procAttr()
	err := cmd.Run()
	killGroup(cmd)
	if ctx.Err() != nil {
		return true // still hanging
	}
	if err == nil {
		return false
	}
	if ee, ok := err.(*exec.ExitError); ok {
		return ee.ExitCode() != 0
	}
	return false
}

// Replay runs one violation file in-process and reports.
func Replay(path string, quiet bool) int {
	capAddressSpace() // as in a worker: running out of memory is an observation, not a threat to the machine
	b, err := os.ReadFile(path)
	if err != nil {
		fmt.Fprintln(os.Stderr, err)
		return 2
	}
	var vf ViolationFile
	if err := json.Unmarshal(b, &vf); err != nil {
		fmt.Fprintln(os.Stderr, err)
		return 2
	}
	p := Lookup(vf.Property)
	if p == nil {
		fmt.Fprintln(os.Stderr, "unknown property", vf.Property)
		return 2
	}
	c := p.NewCase()
	if err := json.Unmarshal(vf.Case, c); err != nil {
		fmt.Fprintln(os.Stderr, err)
		return 2
	}
	tier := vf.Tier
	if tier == "" {
		tier = "quick"
	}
	env, cleanup, err := NewEnv(tier)
	if err != nil {
		fmt.Fprintln(os.Stderr, err)
		return 2
	}
	defer cleanup()
	if p.Setup != nil {
		if err := p.Setup(env); err != nil {
			fmt.Fprintln(os.Stderr, err)
			return 2
		}
	}
	out := SafeRun(p, env, c)
	if !quiet {
		ob, _ := json.MarshalIndent(out, "", " ")
		fmt.Printf("%s\n", ob)
	}
	if out.Violation != "" {
		if !quiet {
			fmt.Printf("VIOLATION property=%s replay=%s\n", p.ID, path)
		}
		cleanup()
		return 1
	}
	return 0
}
