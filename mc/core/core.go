// Package core is the plumbing shared by all property checks: the case
// protocol, sharded worker subprocesses with hang/crash attribution, evidence
// files, violation replay files and the known-findings list.
package core

import (
	"encoding/json"
	"fmt"
	"hash/fnv"
	"os"
	"path/filepath"
	"sort"
	"strings"
)

// Outcome is the verdict for one explored case.
type Outcome struct {
	Skip        string         `json:"skip,omitempty"`      // non-empty: not a case of the property (e.g. patch rejected)
	Violation   string         `json:"violation,omitempty"` // non-empty: the property is violated
	FindingKey  string         `json:"finding_key,omitempty"`
	Nontrivial  bool           `json:"nontrivial,omitempty"`
	Class       string         `json:"class,omitempty"` // observed outcome class
	States      int            `json:"states,omitempty"`
	Transitions int            `json:"transitions,omitempty"`
	Validated   int            `json:"validated,omitempty"`
	Detail      map[string]any `json:"detail,omitempty"`
}

// Env is what a worker offers to Run.
type Env struct {
	Tier    string
	Scratch string // private scratch directory of this worker (removed on exit)
	BinDir  string // /verif/bin
	Verif   string // /verif
	Repo    string // /repo
	Private map[string]any
}

// Property describes one check.
type Property struct {
	ID          string
	Level       string // model_checking | fault_enumeration
	Rule        string
	Assumptions []string
	Bounds      func(tier string) map[string]any
	NewCase     func() any
	// Gen enumerates the whole universe of the tier in a deterministic order.
	Gen func(tier string, emit func(c any))
	// Run executes one case against the implementation and judges it.
	Run func(env *Env, c any) Outcome
	// Setup is run once per worker before the first case.
	Setup func(env *Env) error
	// Serial forces one worker (for checks that use all cores themselves).
	Serial bool
	// MaxWorkers limits parallelism (0 = GOMAXPROCS).
	MaxWorkers int
	// HangSeconds overrides the per-case watchdog (default 30).
	HangSeconds int
	// HangKey, if set, narrows the finding key of a hang ("hang" + HangKey(case)): a hang is attributed by the
	// parent, which has only the case to classify it by.
	HangKey func(c any) string
	// Post is run by the parent after all workers finished; it may add
	// fields to the coverage object.
	Post func(cov map[string]any)
}

var registry = map[string]*Property{}

// Register adds a property check.
func Register(p *Property) {
	if _, dup := registry[p.ID]; dup {
		panic("duplicate property " + p.ID)
	}
	registry[p.ID] = p
}

// Lookup finds a property.
func Lookup(id string) *Property { return registry[id] }

// IDs lists registered ids.
func IDs() []string {
	var ids []string
	for id := range registry {
		ids = append(ids, id)
	}
	sort.Strings(ids)
	return ids
}

// Hash64 of the JSON form of a case.
func Hash64(b []byte) uint64 {
	h := fnv.New64a()
	h.Write(b)
	return h.Sum64()
}

// Known findings -----------------------------------------------------------

// Finding is one line of known_findings.txt.
type Finding struct {
	Status   string // known | fixed
	Property string
	Key      string // for known
	Commit   string // for fixed
	What     string
}

// LoadFindings parses known_findings.txt:
//
//	known: property=C04 key=<key> <what fails>
//	fixed: property=C08 <commit> <what failed>
func LoadFindings(path string) ([]Finding, error) {
	b, err := os.ReadFile(path)
	if err != nil {
		if os.IsNotExist(err) {
			return nil, nil
		}
		return nil, err
	}
	var out []Finding
	for _, ln := range strings.Split(string(b), "\n") {
		ln = strings.TrimSpace(ln)
		if ln == "" || strings.HasPrefix(ln, "#") {
			continue
		}
		var f Finding
		switch {
		case strings.HasPrefix(ln, "known:"):
			f.Status = "known"
			rest := strings.Fields(strings.TrimPrefix(ln, "known:"))
			if len(rest) < 3 || !strings.HasPrefix(rest[0], "property=") || !strings.HasPrefix(rest[1], "key=") {
				return nil, fmt.Errorf("bad known line: %q", ln)
			}
			f.Property = strings.TrimPrefix(rest[0], "property=")
			f.Key = strings.TrimPrefix(rest[1], "key=")
			f.What = strings.Join(rest[2:], " ")
		case strings.HasPrefix(ln, "fixed:"):
			f.Status = "fixed"
			rest := strings.Fields(strings.TrimPrefix(ln, "fixed:"))
			if len(rest) < 3 || !strings.HasPrefix(rest[0], "property=") {
				return nil, fmt.Errorf("bad fixed line: %q", ln)
			}
			f.Property = strings.TrimPrefix(rest[0], "property=")
			f.Commit = rest[1]
			f.What = strings.Join(rest[2:], " ")
		default:
			return nil, fmt.Errorf("bad line in known findings: %q", ln)
		}
		out = append(out, f)
	}
	return out, nil
}

// Violation files ------------------------------------------------------------

// ViolationFile is the replayable artefact.
type ViolationFile struct {
	Property string          `json:"property"`
	Tier     string          `json:"tier"`
	Case     json.RawMessage `json:"case"`
	Outcome  Outcome         `json:"outcome"`
	Note     string          `json:"note,omitempty"`
}

// WriteViolation stores a replay file and returns its path.
func WriteViolation(verif string, v ViolationFile) (string, error) {
	dir := filepath.Join(verif, "violations")
	if err := os.MkdirAll(dir, 0o755); err != nil {
		return "", err
	}
	b, err := json.MarshalIndent(v, "", " ")
	if err != nil {
		return "", err
	}
	name := fmt.Sprintf("%s-%016x.json", v.Property, Hash64(v.Case))
	p := filepath.Join(dir, name)
	return p, os.WriteFile(p, b, 0o644)
}
