// Package model is the reference model M of the gopatch patch language: what
// the properties say a change means, written independently of gopatch's own
// parser (internal/parse, internal/pgo) and engine. Patterns are given as Go
// text in which reserved identifiers DOTS_<i> stand for elisions and the names
// declared in Meta stand for metavariables; that text is parsed with go/parser
// for the model and rendered to patch syntax ("...") for gopatch.
package model

import (
	"fmt"
	"go/ast"
	"go/parser"
	"go/token"
	"reflect"
	"regexp"
	"sort"
	"strconv"
	"strings"

	"verifmc/canon"
)

// MetaVar is one declared metavariable.
type MetaVar struct {
	Name string `json:"name"`
	Kind string `json:"kind"` // identifier | expression
}

// Line is one line of the diff part of a change.
type Line struct {
	Tag  string `json:"tag"` // " ", "-", "+"
	Text string `json:"text"`
}

// Change is the structured form of one change.
type Change struct {
	Name  string    `json:"name,omitempty"`
	Desc  []string  `json:"desc,omitempty"` // '#' lines directly above the header
	Meta  []MetaVar `json:"meta,omitempty"`
	Kind  string    `json:"kind"` // expr | stmts | decl
	Lines []Line    `json:"lines"`
	// Package clause: PkgMinus guards the file's package, PkgPlus (if different) renames it.
	// A clause on a context line has both set to the same name.
	PkgMinus string `json:"pkg_minus,omitempty"`
	PkgPlus  string `json:"pkg_plus,omitempty"`
	// Import lines of the change.
	Imports []Import `json:"imports,omitempty"`
}

// Import is one import line of a change.
type Import struct {
	Tag  string `json:"tag"`            // " ", "-", "+"
	Name string `json:"name,omitempty"` // "", a literal name, ".", "_", or the name of an identifier metavariable
	Path string `json:"path"`
}

// L builds lines from strings whose first byte is the tag.
func L(ls ...string) []Line {
	var out []Line
	for _, l := range ls {
		out = append(out, Line{Tag: l[:1], Text: l[1:]})
	}
	return out
}

var dotsRe = regexp.MustCompile(`(_ )?DOTS_(\d+)`)

// Render produces the patch text of the change for gopatch.
func (c *Change) Render() string {
	var b strings.Builder
	for _, d := range c.Desc {
		b.WriteString("# " + d + "\n")
	}
	if c.Name != "" {
		b.WriteString("@ " + c.Name + " @\n")
	} else {
		b.WriteString("@@\n")
	}
	for _, m := range c.Meta {
		fmt.Fprintf(&b, "var %s %s\n", m.Name, m.Kind)
	}
	b.WriteString("@@\n")
	switch {
	case c.PkgMinus != "" && c.PkgMinus == c.PkgPlus:
		b.WriteString(" package " + c.PkgMinus + "\n\n")
	case c.PkgMinus != "" || c.PkgPlus != "":
		if c.PkgMinus != "" {
			b.WriteString("-package " + c.PkgMinus + "\n")
		}
		if c.PkgPlus != "" {
			b.WriteString("+package " + c.PkgPlus + "\n")
		}
		b.WriteString("\n")
	}
	for _, im := range c.Imports {
		if im.Name != "" {
			fmt.Fprintf(&b, "%simport %s %q\n", im.Tag, im.Name, im.Path)
		} else {
			fmt.Fprintf(&b, "%simport %q\n", im.Tag, im.Path)
		}
	}
	if len(c.Imports) > 0 {
		b.WriteString("\n")
	}
	for _, l := range c.Lines {
		b.WriteString(l.Tag + dotsRe.ReplaceAllString(l.Text, "...") + "\n")
	}
	return b.String()
}

// RenderAll renders several changes as one patch file.
func RenderAll(cs []*Change) string {
	var parts []string
	for _, c := range cs {
		parts = append(parts, c.Render())
	}
	return strings.Join(parts, "\n")
}

func (c *Change) side(tags string) string {
	var ls []string
	for _, l := range c.Lines {
		if strings.Contains(tags, l.Tag) {
			ls = append(ls, l.Text)
		}
	}
	return strings.Join(ls, "\n")
}

// Compiled is a change parsed for the model.
type Compiled struct {
	C     *Change
	meta  map[string]string
	Minus reflect.Value // expr: ast.Expr; stmts: []ast.Stmt; decl: ast.Decl
	Plus  reflect.Value
}

func parseSide(kind, text string) (reflect.Value, error) {
	fset := token.NewFileSet()
	switch kind {
	case "expr":
		e, err := parser.ParseExprFrom(fset, "p.go", text, parser.SkipObjectResolution)
		if err != nil {
			return reflect.Value{}, err
		}
		v := reflect.New(exprType).Elem()
		v.Set(reflect.ValueOf(e))
		return v, nil
	case "stmts":
		f, err := parser.ParseFile(fset, "p.go", "package p\nfunc _() {\n"+text+"\n}\n", parser.SkipObjectResolution)
		if err != nil {
			return reflect.Value{}, err
		}
		return reflect.ValueOf(f.Decls[0].(*ast.FuncDecl).Body.List), nil
	case "decl":
		f, err := parser.ParseFile(fset, "p.go", "package p\n"+text+"\n", parser.SkipObjectResolution)
		if err != nil {
			return reflect.Value{}, err
		}
		if len(f.Decls) != 1 {
			return reflect.Value{}, fmt.Errorf("model: want exactly one declaration, got %d", len(f.Decls))
		}
		v := reflect.New(declType).Elem()
		v.Set(reflect.ValueOf(f.Decls[0]))
		return v, nil
	}
	return reflect.Value{}, fmt.Errorf("model: unknown kind %q", kind)
}

// Compile parses both sides of the change.
func Compile(c *Change) (*Compiled, error) {
	cc := &Compiled{C: c, meta: map[string]string{}}
	for _, m := range c.Meta {
		cc.meta[m.Name] = m.Kind
	}
	var err error
	if cc.Minus, err = parseSide(c.Kind, c.side(" -")); err != nil {
		return nil, fmt.Errorf("model: minus side: %w", err)
	}
	if cc.Plus, err = parseSide(c.Kind, c.side(" +")); err != nil {
		return nil, fmt.Errorf("model: plus side: %w", err)
	}
	if misplacedDots(cc.Minus) || misplacedDots(cc.Plus) {
		return nil, ErrMisplacedDots
	}
	return cc, nil
}

// ErrMisplacedDots: an elision marker stands where no list is (e.g. the single
// index of gen[DOTS]); the properties only speak of elisions in lists, blocks
// and for-headers, so the model does not define such patterns.
var ErrMisplacedDots = fmt.Errorf("model: elision outside a list")

func misplacedDots(root reflect.Value) bool {
	bad := false
	var walk func(v reflect.Value, inList bool)
	walk = func(v reflect.Value, inList bool) {
		if bad || !v.IsValid() {
			return
		}
		switch v.Kind() {
		case reflect.Interface:
			if !v.IsNil() {
				walk(v.Elem(), inList)
			}
		case reflect.Ptr:
			if v.IsNil() {
				return
			}
			switch v.Type() {
			case cgPtr, objPtr, scopePtr:
				return
			}
			if id, ok := v.Interface().(*ast.Ident); ok {
				if strings.HasPrefix(id.Name, "DOTS_") && !inList {
					bad = true
				}
				return
			}
			if _, ok := forDots(v); ok {
				walk(v.Elem().FieldByName("Body"), false)
				return
			}
			if inList {
				// the element itself may be the elision wrapper (ExprStmt / Field)
				if _, ok := dotsIndex(v); ok {
					return
				}
			}
			walk(v.Elem(), false)
		case reflect.Struct:
			for i := 0; i < v.NumField(); i++ {
				walk(v.Field(i), false)
			}
		case reflect.Slice:
			isList := v.Type() == exprSlice || v.Type() == stmtSlice || v.Type() == fieldSlice
			for i := 0; i < v.Len(); i++ {
				walk(v.Index(i), isList)
			}
		}
	}
	walk(root, root.Kind() == reflect.Slice && root.Type() == stmtSlice)
	return bad
}

var (
	exprType   = reflect.TypeOf((*ast.Expr)(nil)).Elem()
	stmtType   = reflect.TypeOf((*ast.Stmt)(nil)).Elem()
	declType   = reflect.TypeOf((*ast.Decl)(nil)).Elem()
	nodeType   = reflect.TypeOf((*ast.Node)(nil)).Elem()
	posType    = reflect.TypeOf(token.NoPos)
	identPtr   = reflect.TypeOf((*ast.Ident)(nil))
	cgPtr      = reflect.TypeOf((*ast.CommentGroup)(nil))
	objPtr     = reflect.TypeOf((*ast.Object)(nil))
	scopePtr   = reflect.TypeOf((*ast.Scope)(nil))
	fieldPtr   = reflect.TypeOf((*ast.Field)(nil))
	forPtr     = reflect.TypeOf((*ast.ForStmt)(nil))
	rangePtr   = reflect.TypeOf((*ast.RangeStmt)(nil))
	blockPtr   = reflect.TypeOf((*ast.BlockStmt)(nil))
	casePtr    = reflect.TypeOf((*ast.CaseClause)(nil))
	commPtr    = reflect.TypeOf((*ast.CommClause)(nil))
	exprSlice  = reflect.TypeOf([]ast.Expr(nil))
	stmtSlice  = reflect.TypeOf([]ast.Stmt(nil))
	fieldSlice = reflect.TypeOf([]*ast.Field(nil))
)

// dotsIndex reports whether the list element is an elision and which.
func dotsIndex(v reflect.Value) (int, bool) {
	if !v.IsValid() {
		return 0, false
	}
	for v.Kind() == reflect.Interface {
		if v.IsNil() {
			return 0, false
		}
		v = v.Elem()
	}
	if v.Kind() != reflect.Ptr || v.IsNil() {
		return 0, false
	}
	switch n := v.Interface().(type) {
	case *ast.Ident:
		if strings.HasPrefix(n.Name, "DOTS_") {
			i, err := strconv.Atoi(n.Name[5:])
			return i, err == nil
		}
	case *ast.ExprStmt:
		return dotsIndex(reflect.ValueOf(n.X))
	case *ast.Field:
		if len(n.Names) == 0 || (len(n.Names) == 1 && n.Names[0].Name == "_") {
			return dotsIndex(reflect.ValueOf(n.Type))
		}
	}
	return 0, false
}

func forDots(v reflect.Value) (int, bool) {
	if v.Type() != forPtr || v.IsNil() {
		return 0, false
	}
	f := v.Interface().(*ast.ForStmt)
	if f.Init != nil || f.Post != nil || f.Cond == nil {
		return 0, false
	}
	return dotsIndex(reflect.ValueOf(f.Cond))
}

// Bindings of one match attempt. Values are never mutated after creation
// (copy on write), so backtracking is safe.
type Bindings struct {
	Vars map[string]reflect.Value // metavariable -> bound node (concrete pointer value)
	Runs map[int][]reflect.Value  // elision -> elided elements
	Loop map[int]reflect.Value    // for-header elision -> the matched *ForStmt / *RangeStmt
	Lens []int                    // run lengths in the order they were chosen (lexicographic key)
}

func (b *Bindings) clone() *Bindings {
	n := &Bindings{Vars: map[string]reflect.Value{}, Runs: map[int][]reflect.Value{}, Loop: map[int]reflect.Value{}}
	for k, v := range b.Vars {
		n.Vars[k] = v
	}
	for k, v := range b.Runs {
		n.Runs[k] = v
	}
	for k, v := range b.Loop {
		n.Loop[k] = v
	}
	n.Lens = append([]int{}, b.Lens...)
	return n
}

func newBindings() *Bindings { return (&Bindings{}).clone() }

type matcher struct {
	meta map[string]string
	init *Bindings // bindings made by import guards
}

func (m *matcher) fresh() *Bindings {
	if m.init != nil {
		return m.init.clone()
	}
	return newBindings()
}

func concrete(v reflect.Value) reflect.Value {
	for v.IsValid() && v.Kind() == reflect.Interface && !v.IsNil() {
		v = v.Elem()
	}
	return v
}

func isNilish(v reflect.Value) bool {
	switch v.Kind() {
	case reflect.Ptr, reflect.Interface, reflect.Slice, reflect.Map:
		return v.IsNil()
	}
	return false
}

// match succeeds iff node n is an instance of pattern p; k is the
// continuation (success of the rest of the pattern). Solutions are explored
// in lexicographic order of run lengths, left to right.
func (m *matcher) match(p, n reflect.Value, b *Bindings, k func(*Bindings) bool) bool {
	t := p.Type()
	switch t {
	case posType:
		if (p.Int() != 0) != (n.Int() != 0) {
			return false
		}
		return k(b)
	case cgPtr, objPtr, scopePtr:
		return k(b)
	}
	switch p.Kind() {
	case reflect.Interface:
		if p.IsNil() {
			if n.Kind() == reflect.Interface && n.IsNil() {
				return k(b)
			}
			return false
		}
		return m.match(p.Elem(), n, b, k)
	case reflect.Ptr:
		if p.IsNil() {
			nn := n
			if nn.Kind() == reflect.Interface {
				if nn.IsNil() {
					return k(b)
				}
				return false
			}
			if nn.Kind() == reflect.Ptr && nn.IsNil() {
				return k(b)
			}
			return false
		}
		nc := concrete(n)
		if t == identPtr {
			id := p.Interface().(*ast.Ident)
			if kind, ok := m.meta[id.Name]; ok {
				return m.matchMeta(id.Name, kind, nc, b, k)
			}
		}
		if !nc.IsValid() || nc.Kind() != reflect.Ptr || nc.IsNil() {
			return false
		}
		if i, ok := forDots(p); ok {
			if nc.Type() != forPtr && nc.Type() != rangePtr {
				return false
			}
			nb := b.clone()
			nb.Loop[i] = nc
			return m.match(p.Elem().FieldByName("Body"), nc.Elem().FieldByName("Body"), nb, k)
		}
		if nc.Type() != t {
			return false
		}
		return m.match(p.Elem(), nc.Elem(), b, k)
	case reflect.Struct:
		if n.Type() != t {
			return false
		}
		return m.matchFields(p, n, 0, b, k)
	case reflect.Slice:
		if n.Kind() != reflect.Slice {
			return false
		}
		return m.matchList(p, n, 0, 0, b, k)
	default:
		if n.Type() != t {
			return false
		}
		if p.Interface() != n.Interface() {
			return false
		}
		return k(b)
	}
}

func (m *matcher) matchFields(p, n reflect.Value, i int, b *Bindings, k func(*Bindings) bool) bool {
	if i == p.NumField() {
		return k(b)
	}
	return m.match(p.Field(i), n.Field(i), b, func(b2 *Bindings) bool {
		return m.matchFields(p, n, i+1, b2, k)
	})
}

// matchList matches pattern elements p[pi:] against n[ni:].
func (m *matcher) matchList(p, n reflect.Value, pi, ni int, b *Bindings, k func(*Bindings) bool) bool {
	if pi == p.Len() {
		if ni == n.Len() {
			return k(b)
		}
		return false
	}
	if di, ok := dotsIndex(p.Index(pi)); ok && isListDots(p, pi) {
		for l := 0; ni+l <= n.Len(); l++ {
			nb := b.clone()
			run := make([]reflect.Value, l)
			for j := 0; j < l; j++ {
				run[j] = n.Index(ni + j)
			}
			nb.Runs[di] = run
			nb.Lens = append(nb.Lens, l)
			if m.matchList(p, n, pi+1, ni+l, nb, k) {
				return true
			}
		}
		return false
	}
	if ni >= n.Len() {
		return false
	}
	return m.match(p.Index(pi), n.Index(ni), b, func(b2 *Bindings) bool {
		return m.matchList(p, n, pi+1, ni+1, b2, k)
	})
}

// isListDots: an elision is only meaningful in lists of expressions,
// statements and fields.
func isListDots(p reflect.Value, pi int) bool {
	switch p.Type() {
	case exprSlice, stmtSlice, fieldSlice:
		return true
	}
	return false
}

func (m *matcher) matchMeta(name, kind string, nc reflect.Value, b *Bindings, k func(*Bindings) bool) bool {
	if !nc.IsValid() || nc.Kind() != reflect.Ptr || nc.IsNil() {
		return false
	}
	switch kind {
	case "identifier":
		if nc.Type() != identPtr {
			return false
		}
	case "expression":
		if !nc.Type().Implements(exprType) {
			return false
		}
	}
	if prev, ok := b.Vars[name]; ok {
		// repeated occurrences must stand for token-identical code: `a` and `(a)` differ
		if canon.Node(prev.Interface(), canon.Options{KeepParens: true}) != canon.Node(nc.Interface(), canon.Options{KeepParens: true}) {
			return false
		}
		return k(b)
	}
	nb := b.clone()
	nb.Vars[name] = nc
	return k(nb)
}

// ---------------------------------------------------------------------------
// Sites

// Instance is one instance of a statement pattern inside a container.
type Instance struct {
	Start, End int // statements [Start,End) of the container's list are the instance
	B          *Bindings
}

// Site is a node of the file that is an instance of the '-' pattern.
type Site struct {
	Node      reflect.Value // concrete pointer value of the node (expr/decl: the instance; stmts: the container)
	Path      string        // slot description, e.g. File.Decls[1].Body.List[0].X.Args[1]
	SlotType  reflect.Type  // static type of the slot holding the node
	B         *Bindings     // expr/decl
	Instances []Instance    // stmts: canonical left-to-right decomposition
	Parent    int           // index of the innermost enclosing site, -1 if none
	// for stmts sites: whether the container lies within the statement span of an
	// instance of the parent (then it is optional), and of which instance
	InParentSpan int
	SlotKind     string // short structural description of the slot (for finding keys)
}

// Analysis of one (change, file) pair.
type Analysis struct {
	CC         *Compiled
	File       *ast.File
	Sites      []*Site
	GuardsHold bool
}

// Guards evaluates the package and import guards of the change on the file
// (the table of property C10) and returns the bindings that import names
// which are identifier metavariables receive.
func (cc *Compiled) Guards(f *ast.File) (*Bindings, bool) {
	b := newBindings()
	c := cc.C
	if c.PkgMinus != "" && c.PkgMinus != f.Name.Name {
		return nil, false
	}
	for _, im := range c.Imports {
		if im.Tag == "+" {
			continue
		}
		var spec *ast.ImportSpec
		for _, d := range f.Decls {
			gd, ok := d.(*ast.GenDecl)
			if !ok || gd.Tok != token.IMPORT {
				continue
			}
			for _, s := range gd.Specs {
				is := s.(*ast.ImportSpec)
				if p, _ := strconv.Unquote(is.Path.Value); p == im.Path && spec == nil {
					spec = is
				}
			}
		}
		if spec == nil {
			return nil, false
		}
		isMeta := cc.meta[im.Name] == "identifier"
		switch {
		case im.Name == "": // unnamed matches only unnamed
			if spec.Name != nil {
				return nil, false
			}
		case isMeta: // any name or none
			id := &ast.Ident{Name: im.Name, NamePos: 1} // a name with a (valid) position, like every name of the file
			if spec.Name != nil {
				id = spec.Name
			}
			v := reflect.ValueOf(id)
			if prev, ok := b.Vars[im.Name]; ok {
				if prev.Interface().(*ast.Ident).Name != id.Name {
					return nil, false
				}
			}
			b.Vars[im.Name] = v
		default: // literal name: exactly that name
			if spec.Name == nil || spec.Name.Name != im.Name {
				return nil, false
			}
		}
	}
	return b, true
}

// ParseFile parses a target file for the model.
func ParseFile(src []byte) (*ast.File, error) {
	return parser.ParseFile(token.NewFileSet(), "a.go", src, parser.SkipObjectResolution)
}

// Analyze finds all sites.
func Analyze(cc *Compiled, f *ast.File) *Analysis {
	a := &Analysis{CC: cc, File: f}
	m := &matcher{meta: cc.meta}
	init, ok := cc.Guards(f)
	a.GuardsHold = ok
	if !ok {
		return a
	}
	m.init = init
	var stack []int
	var walk func(v reflect.Value, slot reflect.Type, path, slotKind string)
	visitNode := func(v reflect.Value, slot reflect.Type, path, slotKind string) bool {
		// v is a non-nil pointer to an ast node
		var s *Site
		switch cc.C.Kind {
		case "expr", "decl":
			var found *Bindings
			m.match(cc.Minus, v, m.fresh(), func(b *Bindings) bool { found = b; return true })
			if found != nil {
				s = &Site{Node: v, B: found}
			}
		case "stmts":
			if t := v.Type(); t == blockPtr || t == casePtr || t == commPtr {
				list := containerList(v)
				insts := m.instances(cc.Minus, list)
				if len(insts) > 0 {
					s = &Site{Node: v, Instances: insts}
				}
			}
		}
		if s == nil {
			return false
		}
		s.Path, s.SlotType, s.SlotKind = path, slot, slotKind
		s.Parent = -1
		if len(stack) > 0 {
			s.Parent = stack[len(stack)-1]
		}
		a.Sites = append(a.Sites, s)
		return true
	}
	walk = func(v reflect.Value, slot reflect.Type, path, slotKind string) {
		switch v.Kind() {
		case reflect.Interface:
			if !v.IsNil() {
				walk(v.Elem(), slot, path, slotKind)
			}
		case reflect.Ptr:
			if v.IsNil() {
				return
			}
			switch v.Type() {
			case cgPtr, objPtr, scopePtr:
				return
			}
			pushed := false
			if v.Type().Implements(nodeType) {
				if visitNode(v, slot, path, slotKind) {
					stack = append(stack, len(a.Sites)-1)
					pushed = true
				}
			}
			walk(v.Elem(), slot, path, slotKind)
			if pushed {
				stack = stack[:len(stack)-1]
			}
		case reflect.Struct:
			t := v.Type()
			for i := 0; i < t.NumField(); i++ {
				f := t.Field(i)
				if t.Name() == "File" && (f.Name == "Imports" || f.Name == "Unresolved" || f.Name == "Comments" || f.Name == "Scope") {
					continue
				}
				if f.Type == posType || f.Type.Kind() == reflect.String || f.Type.Kind() == reflect.Bool || f.Type.Kind() == reflect.Int {
					continue
				}
				walk(v.Field(i), f.Type, path+"."+f.Name, t.Name()+"."+f.Name)
			}
		case reflect.Slice:
			for i := 0; i < v.Len(); i++ {
				walk(v.Index(i), v.Type().Elem(), fmt.Sprintf("%s[%d]", path, i), slotKind+"[]")
			}
		}
	}
	walk(reflect.ValueOf(f), reflect.TypeOf(f), "File", "File")
	// stmts: is a nested container inside the span of an instance of its parent?
	if cc.C.Kind == "stmts" {
		for _, s := range a.Sites {
			s.InParentSpan = -1
			if s.Parent < 0 {
				continue
			}
			p := a.Sites[s.Parent]
			plist := containerList(p.Node)
			for ii, in := range p.Instances {
				for j := in.Start; j < in.End; j++ {
					if containsNode(plist.Index(j), s.Node) {
						s.InParentSpan = ii
					}
				}
			}
		}
	}
	return a
}

func containerList(v reflect.Value) reflect.Value {
	if v.Type() == blockPtr {
		return v.Elem().FieldByName("List")
	}
	return v.Elem().FieldByName("Body")
}

func containsNode(root, target reflect.Value) bool {
	found := false
	var walk func(v reflect.Value)
	walk = func(v reflect.Value) {
		if found {
			return
		}
		switch v.Kind() {
		case reflect.Interface:
			if !v.IsNil() {
				walk(v.Elem())
			}
		case reflect.Ptr:
			if v.IsNil() {
				return
			}
			if v.Type() == target.Type() && v.Pointer() == target.Pointer() {
				found = true
				return
			}
			switch v.Type() {
			case cgPtr, objPtr, scopePtr:
				return
			}
			walk(v.Elem())
		case reflect.Struct:
			for i := 0; i < v.NumField(); i++ {
				walk(v.Field(i))
			}
		case reflect.Slice:
			for i := 0; i < v.Len(); i++ {
				walk(v.Index(i))
			}
		}
	}
	walk(root)
	return found
}

// instances computes the canonical decomposition: the first (lexicographically
// minimal) instance, then the first instance in what follows it, and so on.
func (m *matcher) instances(pat, list reflect.Value) []Instance {
	var out []Instance
	off := 0
	for off <= list.Len() {
		rest := list.Slice(off, list.Len())
		var found *Instance
		for lead := 0; lead <= rest.Len() && found == nil; lead++ {
			m.matchPrefix(pat, rest, 0, lead, m.fresh(), func(b *Bindings, end int) bool {
				found = &Instance{Start: off + lead, End: off + end, B: b}
				return true
			})
		}
		if found == nil || found.End == found.Start {
			break
		}
		out = append(out, *found)
		off = found.End
	}
	return out
}

// matchPrefix matches all of pattern list p[pi:] against n starting at ni,
// not requiring the end of n (the implicit trailing elision of a statement
// pattern takes the rest).
func (m *matcher) matchPrefix(p, n reflect.Value, pi, ni int, b *Bindings, k func(*Bindings, int) bool) bool {
	if pi == p.Len() {
		return k(b, ni)
	}
	if di, ok := dotsIndex(p.Index(pi)); ok {
		for l := 0; ni+l <= n.Len(); l++ {
			nb := b.clone()
			run := make([]reflect.Value, l)
			for j := 0; j < l; j++ {
				run[j] = n.Index(ni + j)
			}
			nb.Runs[di] = run
			nb.Lens = append(nb.Lens, l)
			if m.matchPrefix(p, n, pi+1, ni+l, nb, k) {
				return true
			}
		}
		return false
	}
	if ni >= n.Len() {
		return false
	}
	return m.match(p.Index(pi), n.Index(ni), b, func(b2 *Bindings) bool {
		return m.matchPrefix(p, n, pi+1, ni+1, b2, k)
	})
}

// ---------------------------------------------------------------------------
// Rewriting

// Choice selects what is rewritten: for expr/decl sites the set of site
// indices; for stmts sites a set of (site, instance) pairs.
type Choice map[[2]int]bool

type rewriter struct {
	a      *Analysis
	choice Choice
	byPtr  map[uintptr]int
	err    error
	// Inadmissible is set when a chosen site could not take its replacement.
	skipped map[int]bool
	// namesOnly: the value copied next stands on the left of ":=" (also in a range clause), where the
	// syntax tree has room for an expression and the language for a name only.
	namesOnly bool
}

// ErrUnbound is returned when the '+' side uses a metavariable or elision the
// '-' side did not bind.
type ErrUnbound struct{ What string }

func (e *ErrUnbound) Error() string { return "model: '+' side uses unbound " + e.What }

// Rewrite builds the rewritten file for the given choice. Positions are
// normalised and comments dropped.
func (a *Analysis) Rewrite(choice Choice) (*ast.File, error) {
	r := &rewriter{a: a, choice: choice, byPtr: map[uintptr]int{}, skipped: map[int]bool{}}
	for i, s := range a.Sites {
		r.byPtr[s.Node.Pointer()] = i
	}
	out := r.copy(reflect.ValueOf(a.File), reflect.TypeOf(a.File))
	if r.err != nil {
		return nil, r.err
	}
	f := out.Interface().(*ast.File)
	if a.CC.C.PkgPlus != "" && len(a.Sites) > 0 {
		f.Name = &ast.Ident{Name: a.CC.C.PkgPlus, NamePos: 1}
	}
	f.Comments = nil
	f.Imports = nil
	f.Unresolved = nil
	return f, nil
}

func (r *rewriter) siteOf(v reflect.Value) (int, bool) {
	if v.Kind() != reflect.Ptr || v.IsNil() {
		return 0, false
	}
	i, ok := r.byPtr[v.Pointer()]
	if ok && r.a.Sites[i].Node.Type() != v.Type() {
		return 0, false
	}
	return i, ok
}

// copy returns a deep, position-normalised copy of v in which chosen sites
// are replaced; slot is the static type of the place the result goes to.
func (r *rewriter) copy(v reflect.Value, slot reflect.Type) reflect.Value {
	namesOnly := r.namesOnly
	if v.Kind() != reflect.Interface {
		r.namesOnly = false
	}
	switch v.Type() {
	case posType:
		if v.Int() != 0 {
			return reflect.ValueOf(token.Pos(1))
		}
		return reflect.ValueOf(token.NoPos)
	case cgPtr, objPtr, scopePtr:
		return reflect.Zero(v.Type())
	}
	switch v.Kind() {
	case reflect.Interface:
		if v.IsNil() {
			return reflect.Zero(v.Type())
		}
		out := reflect.New(v.Type()).Elem()
		c := r.copy(v.Elem(), v.Type())
		if !c.Type().AssignableTo(v.Type()) {
			// cannot happen: copy checks admissibility against slot
			panic("model: inadmissible value escaped")
		}
		out.Set(c)
		return out
	case reflect.Ptr:
		if v.IsNil() {
			return reflect.Zero(v.Type())
		}
		if si, ok := r.siteOf(v); ok {
			s := r.a.Sites[si]
			if r.a.CC.C.Kind == "stmts" {
				return r.copyContainer(v, si)
			}
			if r.choice[[2]int{si, 0}] {
				repl, err := r.subst(r.a.CC.Plus, s.B)
				if err != nil {
					r.err = err
					return reflect.Zero(v.Type())
				}
				rc := concrete(repl)
				if rc.Type().AssignableTo(slot) && !(namesOnly && rc.Type() != identPtr) {
					return rc
				}
				r.skipped[si] = true // not syntactically admissible here: left unchanged
			}
		}
		out := reflect.New(v.Type().Elem())
		out.Elem().Set(r.copy(v.Elem(), v.Type().Elem()))
		return out
	case reflect.Struct:
		out := reflect.New(v.Type()).Elem()
		for i := 0; i < v.NumField(); i++ {
			if v.Type().Name() == "File" {
				switch v.Type().Field(i).Name {
				case "Imports", "Unresolved", "Comments", "Scope":
					continue
				}
			}
			if tf := v.FieldByName("Tok"); tf.IsValid() && tf.Type() == reflect.TypeOf(token.DEFINE) && token.Token(tf.Int()) == token.DEFINE {
				switch fn := v.Type().Field(i).Name; {
				case v.Type().Name() == "AssignStmt" && fn == "Lhs":
					lhs := v.Field(i)
					cp := reflect.MakeSlice(lhs.Type(), lhs.Len(), lhs.Len())
					for j := 0; j < lhs.Len(); j++ {
						r.namesOnly = true
						cp.Index(j).Set(r.copy(lhs.Index(j), lhs.Type().Elem()))
					}
					r.namesOnly = false
					out.Field(i).Set(cp)
					continue
				case v.Type().Name() == "RangeStmt" && (fn == "Key" || fn == "Value"):
					r.namesOnly = true
				}
			}
			out.Field(i).Set(r.copy(v.Field(i), v.Type().Field(i).Type))
			r.namesOnly = false
		}
		return out
	case reflect.Slice:
		if v.IsNil() {
			return reflect.Zero(v.Type())
		}
		out := reflect.MakeSlice(v.Type(), v.Len(), v.Len())
		for i := 0; i < v.Len(); i++ {
			out.Index(i).Set(r.copy(v.Index(i), v.Type().Elem()))
		}
		return out
	default:
		return v
	}
}

func (r *rewriter) copyContainer(v reflect.Value, si int) reflect.Value {
	s := r.a.Sites[si]
	out := reflect.New(v.Type().Elem())
	t := v.Type().Elem()
	listName := "Body"
	if v.Type() == blockPtr {
		listName = "List"
	}
	for i := 0; i < t.NumField(); i++ {
		if t.Field(i).Name == listName {
			continue
		}
		out.Elem().Field(i).Set(r.copy(v.Elem().Field(i), t.Field(i).Type))
	}
	list := v.Elem().FieldByName(listName)
	var items []reflect.Value
	pos := 0
	for ii, in := range s.Instances {
		if !r.choice[[2]int{si, ii}] {
			continue
		}
		for ; pos < in.Start; pos++ {
			items = append(items, r.copy(list.Index(pos), stmtType))
		}
		repl, err := r.subst(r.a.CC.Plus, in.B)
		if err != nil {
			r.err = err
			return reflect.Zero(v.Type())
		}
		for j := 0; j < repl.Len(); j++ {
			items = append(items, repl.Index(j))
		}
		pos = in.End
	}
	for ; pos < list.Len(); pos++ {
		items = append(items, r.copy(list.Index(pos), stmtType))
	}
	nl := reflect.MakeSlice(stmtSlice, len(items), len(items))
	for i, it := range items {
		nl.Index(i).Set(it)
	}
	if len(items) == 0 {
		nl = reflect.Zero(stmtSlice)
	}
	out.Elem().FieldByName(listName).Set(nl)
	return out
}

// subst instantiates a '+' pattern with bindings; bound code is copied through
// r.copy so that chosen sites nested inside it are rewritten too.
func (r *rewriter) subst(p reflect.Value, b *Bindings) (reflect.Value, error) {
	switch p.Type() {
	case posType:
		if p.Int() != 0 {
			return reflect.ValueOf(token.Pos(1)), nil
		}
		return reflect.ValueOf(token.NoPos), nil
	case cgPtr, objPtr, scopePtr:
		return reflect.Zero(p.Type()), nil
	}
	switch p.Kind() {
	case reflect.Interface:
		if p.IsNil() {
			return reflect.Zero(p.Type()), nil
		}
		c, err := r.subst(p.Elem(), b)
		if err != nil {
			return c, err
		}
		out := reflect.New(p.Type()).Elem()
		if !c.Type().AssignableTo(p.Type()) {
			return out, &ErrInadmissible{fmt.Sprintf("%v in a slot of type %v", c.Type(), p.Type())}
		}
		out.Set(c)
		return out, nil
	case reflect.Ptr:
		if p.IsNil() {
			return reflect.Zero(p.Type()), nil
		}
		if p.Type() == identPtr {
			id := p.Interface().(*ast.Ident)
			if _, ok := r.a.CC.meta[id.Name]; ok {
				bound, ok := b.Vars[id.Name]
				if !ok {
					return reflect.Value{}, &ErrUnbound{"metavariable " + id.Name}
				}
				return r.copy(bound, bound.Type()), nil
			}
		}
		if i, ok := forDots(p); ok {
			loop, ok := b.Loop[i]
			if !ok {
				return reflect.Value{}, &ErrUnbound{fmt.Sprintf("for-header elision %d", i)}
			}
			out := reflect.New(loop.Type().Elem())
			lt := loop.Type().Elem()
			for fi := 0; fi < lt.NumField(); fi++ {
				if lt.Field(fi).Name == "Body" {
					body, err := r.subst(p.Elem().FieldByName("Body"), b)
					if err != nil {
						return body, err
					}
					out.Elem().Field(fi).Set(body)
					continue
				}
				out.Elem().Field(fi).Set(r.copy(loop.Elem().Field(fi), lt.Field(fi).Type))
			}
			return out, nil
		}
		e, err := r.subst(p.Elem(), b)
		if err != nil {
			return e, err
		}
		out := reflect.New(p.Type().Elem())
		out.Elem().Set(e)
		return out, nil
	case reflect.Struct:
		out := reflect.New(p.Type()).Elem()
		for i := 0; i < p.NumField(); i++ {
			f, err := r.subst(p.Field(i), b)
			if err != nil {
				return f, err
			}
			if !f.Type().AssignableTo(p.Type().Field(i).Type) {
				return out, &ErrInadmissible{fmt.Sprintf("%v in field %s.%s", f.Type(), p.Type().Name(), p.Type().Field(i).Name)}
			}
			out.Field(i).Set(f)
		}
		return out, nil
	case reflect.Slice:
		if p.IsNil() {
			return reflect.Zero(p.Type()), nil
		}
		var items []reflect.Value
		for i := 0; i < p.Len(); i++ {
			if di, ok := dotsIndex(p.Index(i)); ok && isListDots(p, i) {
				run, ok := b.Runs[di]
				if !ok {
					return reflect.Value{}, &ErrUnbound{fmt.Sprintf("elision %d", di)}
				}
				for _, e := range run {
					c := r.copy(e, p.Type().Elem())
					if !c.Type().AssignableTo(p.Type().Elem()) {
						return reflect.Value{}, &ErrInadmissible{fmt.Sprintf("elided %v in a list of %v", c.Type(), p.Type().Elem())}
					}
					items = append(items, c)
				}
				continue
			}
			e, err := r.subst(p.Index(i), b)
			if err != nil {
				return e, err
			}
			if !e.Type().AssignableTo(p.Type().Elem()) {
				return reflect.Value{}, &ErrInadmissible{fmt.Sprintf("%v in a list of %v", e.Type(), p.Type().Elem())}
			}
			items = append(items, e)
		}
		if len(items) == 0 {
			return reflect.Zero(p.Type()), nil
		}
		out := reflect.MakeSlice(p.Type(), len(items), len(items))
		for i, it := range items {
			out.Index(i).Set(it)
		}
		return out, nil
	default:
		return p, nil
	}
}

// ErrInadmissible: the instantiated '+' pattern is not a well-typed syntax
// tree (e.g. an expression bound where only a name can go inside the pattern).
type ErrInadmissible struct{ What string }

func (e *ErrInadmissible) Error() string {
	return "model: instantiated '+' pattern is ill-typed: " + e.What
}

// ---------------------------------------------------------------------------
// Allowed outputs

// Allowed is the set of outputs the properties permit.
type Allowed struct {
	Canon     map[string]string // canonical form -> printed source (for messages)
	Mandatory int               // number of mandatory rewrites
	Optional  int               // number of optional rewrites
	Unparse   int               // members of the set whose printed form does not parse
	Err       error             // '+' side cannot be instantiated (unbound metavariable, ill-typed)
	TooMany   bool              // more optional sites than the enumeration bound
	Applies   bool              // at least one site (the change applies to the file)
}

type unit struct {
	key       [2]int
	mandatory bool
}

// units lists the rewrite units with their status.
func (a *Analysis) units() []unit {
	var us []unit
	switch a.CC.C.Kind {
	case "expr", "decl":
		for i, s := range a.Sites {
			us = append(us, unit{[2]int{i, 0}, s.Parent < 0})
		}
	case "stmts":
		for i, s := range a.Sites {
			for ii := range s.Instances {
				// the first instance of a block is promised unless the block lies inside the
				// statements of a rewritten instance of an enclosing block
				mand := ii == 0 && s.InParentSpan < 0
				us = append(us, unit{[2]int{i, ii}, mand})
			}
		}
	}
	return us
}

// MaxOptional bounds the enumeration of optional units (2^n outputs).
const MaxOptional = 6

// AllowedOutputs enumerates the permitted results. opts is applied to the
// canonical forms.
func (a *Analysis) AllowedOutputs(opts canon.Options) *Allowed {
	al := &Allowed{Canon: map[string]string{}}
	us := a.units()
	al.Applies = len(us) > 0
	var opt []unit
	base := Choice{}
	for _, u := range us {
		if u.mandatory {
			base[u.key] = true
			al.Mandatory++
		} else {
			opt = append(opt, u)
		}
	}
	al.Optional = len(opt)
	if len(opt) > MaxOptional {
		al.TooMany = true
		return al
	}
	for mask := 0; mask < 1<<len(opt); mask++ {
		ch := Choice{}
		for k := range base {
			ch[k] = true
		}
		for i, u := range opt {
			if mask&(1<<i) != 0 {
				ch[u.key] = true
			}
		}
		if a.breaksCopyRule(ch) {
			continue
		}
		f, err := a.Rewrite(ch)
		if err != nil {
			al.Err = err
			return al
		}
		c, printed, err := canon.Tree(f, opts)
		if err != nil {
			al.Unparse++
			continue
		}
		al.Canon[c] = string(printed)
	}
	return al
}

// breaksCopyRule reports whether the choice rewrites a site that lies inside the code bound to a metavariable
// of another rewritten site. C01 leaves instances inside a rewritten instance unconstrained, but C03 pins this
// case: each occurrence of the metavariable is replaced by a syntactically identical copy of the code it stood
// for, so a site inside that code must appear unrewritten in the copies.
func (a *Analysis) breaksCopyRule(ch Choice) bool {
	bindingsOf := func(k [2]int) *Bindings {
		s := a.Sites[k[0]]
		if a.CC.C.Kind == "stmts" {
			return s.Instances[k[1]].B
		}
		return s.B
	}
	span := func(v reflect.Value) (token.Pos, token.Pos, bool) {
		if !v.IsValid() || (v.Kind() == reflect.Ptr && v.IsNil()) || !v.CanInterface() {
			return 0, 0, false
		}
		n, ok := v.Interface().(ast.Node)
		if !ok {
			return 0, 0, false
		}
		return n.Pos(), n.End(), true
	}
	for u := range ch {
		upos, uend, ok := span(a.Sites[u[0]].Node)
		if !ok {
			continue
		}
		for p := range ch {
			if p[0] == u[0] {
				continue
			}
			b := bindingsOf(p)
			if b == nil {
				continue
			}
			for _, v := range b.Vars {
				if bpos, bend, ok := span(v); ok && bpos <= upos && uend <= bend {
					return true
				}
			}
		}
	}
	return false
}

// SubsetExplaining searches for a set of units whose rewriting yields the
// given canonical output; it returns the mandatory units that were left out.
func (a *Analysis) SubsetExplaining(got string, opts canon.Options) (missed []string, found bool) {
	us := a.units()
	if len(us) > 10 {
		return nil, false
	}
	for mask := 0; mask < 1<<len(us); mask++ {
		ch := Choice{}
		for i, u := range us {
			if mask&(1<<i) != 0 {
				ch[u.key] = true
			}
		}
		f, err := a.Rewrite(ch)
		if err != nil {
			return nil, false
		}
		c, _, err := canon.Tree(f, opts)
		if err != nil || c != got {
			continue
		}
		for i, u := range us {
			if u.mandatory && mask&(1<<i) == 0 {
				missed = append(missed, a.describe(u))
			}
		}
		sort.Strings(missed)
		return missed, true
	}
	return nil, false
}

func (a *Analysis) describe(u unit) string {
	s := a.Sites[u.key[0]]
	d := s.SlotKind
	if s.Parent >= 0 {
		p := a.Sites[s.Parent]
		d += " inside-site@" + p.SlotKind
		if a.CC.C.Kind == "stmts" && s.InParentSpan < 0 {
			d += "(outside-its-instances)"
		}
	}
	return d
}

// ---------------------------------------------------------------------------
// Sequences of changes (one patch file with several changes)

// SeqResult is the model's prediction for a sequence of changes applied in
// order, each to what the previous one produced.
type SeqResult struct {
	Canon     map[string]string // permitted final results: canonical form -> source
	Applied   []bool            // per change: does it apply on at least one path
	Err       error             // some step cannot instantiate its '+' side
	ErrStep   int
	TooMany   bool
	Unparse   bool // some permitted intermediate/final result does not parse
	Mandatory int
	Optional  int
}

// AllowedSeq chains AllowedOutputs over the changes.
func AllowedSeq(ccs []*Compiled, src []byte, opts canon.Options) (*SeqResult, error) {
	res := &SeqResult{Applied: make([]bool, len(ccs)), ErrStep: -1}
	c0, err := canon.Source(src, opts)
	if err != nil {
		return nil, err
	}
	cur := map[string]string{c0: string(src)}
	for i, cc := range ccs {
		next := map[string]string{}
		for c, s := range cur {
			f, err := ParseFile([]byte(s))
			if err != nil {
				return nil, fmt.Errorf("model: intermediate result does not parse: %v\n%s", err, s)
			}
			a := Analyze(cc, f)
			al := a.AllowedOutputs(opts)
			switch {
			case al.TooMany:
				res.TooMany = true
				return res, nil
			case !al.Applies:
				next[c] = s
				continue
			case al.Err != nil:
				res.Err, res.ErrStep = al.Err, i
				return res, nil
			}
			res.Applied[i] = true
			res.Mandatory += al.Mandatory
			res.Optional += al.Optional
			if al.Unparse > 0 {
				res.Unparse = true
			}
			for c2, s2 := range al.Canon {
				next[c2] = s2
			}
		}
		if len(next) > 64 {
			res.TooMany = true
			return res, nil
		}
		cur = next
	}
	res.Canon = cur
	return res, nil
}
