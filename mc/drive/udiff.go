package drive

import (
	"fmt"
	"regexp"
	"strconv"
	"strings"
)

// FileDiff is the part of a unified diff that concerns one file.
type FileDiff struct {
	Old, New string
	Hunks    []Hunk
}

// Hunk of a unified diff.
type Hunk struct {
	OldStart, OldLen, NewStart, NewLen int
	Lines                              []string // with their prefix character; "\\ No newline..." markers included
}

var hunkRe = regexp.MustCompile(`^@@ -(\d+)(?:,(\d+))? \+(\d+)(?:,(\d+))? @@`)

// SplitUnified separates a stream that contains unified diffs (possibly of
// several files) and other lines (log lines): every line that cannot be part
// of a diff is returned in other.
func SplitUnified(out string) (diffs []*FileDiff, other []string, err error) {
	lines := strings.SplitAfter(out, "\n")
	if n := len(lines); n > 0 && lines[n-1] == "" {
		lines = lines[:n-1]
	}
	var cur *FileDiff
	var hunk *Hunk
	remOld, remNew := 0, 0
	for i := 0; i < len(lines); i++ {
		ln := lines[i]
		inHunk := hunk != nil && (remOld > 0 || remNew > 0)
		switch {
		case inHunk && (strings.HasPrefix(ln, " ") || strings.HasPrefix(ln, "-") || strings.HasPrefix(ln, "+")):
			hunk.Lines = append(hunk.Lines, ln)
			switch ln[0] {
			case ' ':
				remOld--
				remNew--
			case '-':
				remOld--
			case '+':
				remNew--
			}
		case hunk != nil && strings.HasPrefix(ln, `\`):
			hunk.Lines = append(hunk.Lines, ln)
		case inHunk && ln == "\n":
			// some tools emit an empty context line without the leading space
			hunk.Lines = append(hunk.Lines, " \n")
			remOld--
			remNew--
		case inHunk:
			return nil, nil, fmt.Errorf("line %d: hunk cut short (%d old, %d new lines missing): %q", i+1, remOld, remNew, ln)
		case strings.HasPrefix(ln, "--- ") && i+1 < len(lines) && strings.HasPrefix(lines[i+1], "+++ "):
			cur = &FileDiff{Old: strings.TrimSuffix(ln[4:], "\n"), New: strings.TrimSuffix(lines[i+1][4:], "\n")}
			diffs = append(diffs, cur)
			hunk = nil
			i++
		case strings.HasPrefix(ln, "@@ "):
			m := hunkRe.FindStringSubmatch(ln)
			if m == nil || cur == nil {
				return nil, nil, fmt.Errorf("line %d: bad hunk header %q", i+1, ln)
			}
			h := Hunk{OldLen: 1, NewLen: 1}
			h.OldStart, _ = strconv.Atoi(m[1])
			if m[2] != "" {
				h.OldLen, _ = strconv.Atoi(m[2])
			}
			h.NewStart, _ = strconv.Atoi(m[3])
			if m[4] != "" {
				h.NewLen, _ = strconv.Atoi(m[4])
			}
			cur.Hunks = append(cur.Hunks, h)
			hunk = &cur.Hunks[len(cur.Hunks)-1]
			remOld, remNew = h.OldLen, h.NewLen
		default:
			hunk = nil
			other = append(other, ln)
		}
	}
	if hunk != nil && (remOld > 0 || remNew > 0) {
		return nil, nil, fmt.Errorf("last hunk cut short")
	}
	return diffs, other, nil
}

// ApplyUnified applies the hunks to orig with patch(1) semantics: lines
// outside hunks are copied verbatim; context and '-' lines must match; a '+'
// line ends with a newline unless followed by a "\ No newline" marker; a
// context line is copied as it is in the original.
func ApplyUnified(orig string, d *FileDiff) (string, error) {
	src := strings.SplitAfter(orig, "\n")
	if n := len(src); n > 0 && src[n-1] == "" {
		src = src[:n-1]
	}
	var out strings.Builder
	pos := 0 // index into src
	for hi, h := range d.Hunks {
		start := h.OldStart - 1
		if h.OldLen == 0 {
			start = h.OldStart
		}
		if h.OldLen == 0 && start < pos {
			// pure insertion placed before lines an earlier hunk already consumed (pkg/diff emits
			// "-1,1 +0,0" followed by "-0,0 +1,1" when a one-line file changes): patch(1) applies it
			// at the current position with an offset
			start = pos
		}
		if start < pos || start > len(src) {
			return "", fmt.Errorf("hunk %d starts at line %d, outside the file or overlapping", hi+1, h.OldStart)
		}
		for ; pos < start; pos++ {
			out.WriteString(src[pos])
		}
		for li := 0; li < len(h.Lines); li++ {
			ln := h.Lines[li]
			noNL := li+1 < len(h.Lines) && strings.HasPrefix(h.Lines[li+1], `\`)
			body := strings.TrimSuffix(ln[1:], "\n")
			switch ln[0] {
			case '\\':
				continue
			case ' ', '-':
				if pos >= len(src) {
					return "", fmt.Errorf("hunk %d: %q beyond end of file", hi+1, ln)
				}
				have := strings.TrimSuffix(src[pos], "\n")
				if have != body {
					return "", fmt.Errorf("hunk %d: line %d of the original is %q, diff says %q", hi+1, pos+1, have, body)
				}
				if noNL && strings.HasSuffix(src[pos], "\n") {
					return "", fmt.Errorf("hunk %d: diff claims no newline at end of line %d but the original has one", hi+1, pos+1)
				}
				if ln[0] == ' ' {
					out.WriteString(src[pos])
				}
				pos++
			case '+':
				out.WriteString(body)
				if !noNL {
					out.WriteString("\n")
				}
			}
		}
	}
	for ; pos < len(src); pos++ {
		out.WriteString(src[pos])
	}
	return out.String(), nil
}
