package drive

import (
	"crypto/sha256"
	"fmt"
	"os"
	"path/filepath"
	"sort"
	"strings"
	"syscall"
)

// Entry is one filesystem object of a snapshot.
type Entry struct {
	Path  string // relative to root
	Mode  os.FileMode
	Size  int64
	Ino   uint64
	Mtime int64  // ns
	Sum   string // sha256 of regular files, link target of symlinks
}

func (e Entry) String() string {
	return fmt.Sprintf("%s mode=%v size=%d ino=%d mtime=%d sum=%s", e.Path, e.Mode, e.Size, e.Ino, e.Mtime, e.Sum)
}

// Snapshot lists every object beneath root (no symlink following).
type Snapshot map[string]Entry

// Snap takes a snapshot.
func Snap(root string) (Snapshot, error) {
	s := Snapshot{}
	err := filepath.Walk(root, func(p string, info os.FileInfo, err error) error {
		if err != nil {
			return err
		}
		rel, _ := filepath.Rel(root, p)
		e := Entry{Path: rel, Mode: info.Mode(), Size: info.Size(), Mtime: info.ModTime().UnixNano()}
		if st, ok := info.Sys().(*syscall.Stat_t); ok {
			e.Ino = st.Ino
		}
		switch {
		case info.Mode().IsRegular():
			b, err := os.ReadFile(p)
			if err != nil {
				return err
			}
			e.Sum = fmt.Sprintf("%x", sha256.Sum256(b))
		case info.Mode()&os.ModeSymlink != 0:
			e.Sum, _ = os.Readlink(p)
		case info.IsDir():
			e.Size = 0
			e.Mtime = 0 // directory mtimes change when entries are replaced; entries themselves are compared
		}
		s[rel] = e
		return nil
	})
	return s, err
}

// Diff describes the differences between two snapshots ("" if none).
// If content is true only path/type/content are compared.
func (a Snapshot) Diff(b Snapshot, contentOnly bool) string {
	var out []string
	for p, ea := range a {
		eb, ok := b[p]
		if !ok {
			out = append(out, "removed: "+p)
			continue
		}
		if contentOnly {
			if ea.Mode.Type() != eb.Mode.Type() || ea.Sum != eb.Sum {
				out = append(out, fmt.Sprintf("changed: %s", p))
			}
		} else if ea != eb {
			out = append(out, fmt.Sprintf("changed: %s\n   before %v\n   after  %v", p, ea, eb))
		}
	}
	for p := range b {
		if _, ok := a[p]; !ok {
			out = append(out, "created: "+p)
		}
	}
	sort.Strings(out)
	return strings.Join(out, "\n")
}

// WriteTree creates files (path → content) beneath root; a content of
// "->target" creates a symlink; a path ending in "/" a directory.
func WriteTree(root string, files map[string]string) error {
	var paths []string
	for p := range files {
		paths = append(paths, p)
	}
	sort.Strings(paths)
	for _, p := range paths {
		c := files[p]
		full := filepath.Join(root, p)
		if strings.HasSuffix(p, "/") {
			if err := os.MkdirAll(full, 0o755); err != nil {
				return err
			}
			continue
		}
		if err := os.MkdirAll(filepath.Dir(full), 0o755); err != nil {
			return err
		}
		if strings.HasPrefix(c, "->") {
			if err := os.Symlink(c[2:], full); err != nil {
				return err
			}
			continue
		}
		if strings.HasPrefix(c, "=>") { // hard link to an absolute path written earlier (links are made last)
			continue
		}
		if c == "|fifo" { // a named pipe (nobody writes to it: reading it blocks)
			if err := syscall.Mkfifo(full, 0o644); err != nil {
				return err
			}
			continue
		}
		if err := os.WriteFile(full, []byte(c), 0o644); err != nil {
			return err
		}
	}
	for _, p := range paths {
		if c := files[p]; strings.HasPrefix(c, "=>") {
			if err := os.Link(c[2:], filepath.Join(root, p)); err != nil {
				return err
			}
		}
	}
	return nil
}

// FreshDir empties (or creates) dir.
func FreshDir(dir string) error {
	os.RemoveAll(dir)
	return os.MkdirAll(dir, 0o755)
}

// FeedFifo writes data into the named pipe at path as soon as a reader opens it. stop releases the writer if
// nobody ever opened the pipe (and waits for it).
func FeedFifo(path, data string) (stop func()) {
	done := make(chan struct{})
	go func() {
		defer close(done)
		f, err := os.OpenFile(path, os.O_WRONLY, 0)
		if err != nil {
			return
		}
		f.WriteString(data)
		f.Close()
	}()
	return func() {
		select {
		case <-done:
			return
		default:
		}
		if r, err := os.OpenFile(path, os.O_RDONLY|syscall.O_NONBLOCK, 0); err == nil {
			<-done
			r.Close()
		}
	}
}
