// Package drive runs the implementation: the library API in-process, the CLI
// through the in-process driver binary (gopatch.drv) and the real binary
// (gopatch.real) as a subprocess.
package drive

import (
	"bufio"
	"bytes"
	"context"
	"encoding/json"
	"fmt"
	"io"
	"os"
	"os/exec"
	"syscall"
	"time"
)

// Result of one CLI invocation.
type Result struct {
	Stdout string `json:"stdout"`
	Stderr string `json:"stderr"`
	Exit   int    `json:"exit"`
	Panic  string `json:"panic,omitempty"`
}

type req struct {
	Cwd   string   `json:"cwd"`
	Args  []string `json:"args"`
	Stdin string   `json:"stdin"`
}

// Server is a running gopatch.drv.
type Server struct {
	bin string
	cmd *exec.Cmd
	in  io.WriteCloser
	out *bufio.Reader
}

// NewServer starts the in-process CLI driver.
func NewServer(bin string) (*Server, error) {
	s := &Server{bin: bin}
	return s, s.start()
}

func (s *Server) start() error {
	cmd := exec.Command(s.bin)
	cmd.Env = append(os.Environ(), "VERIF_DRIVER=1")
	cmd.Stderr = os.Stderr
	cmd.SysProcAttr = &syscall.SysProcAttr{Pdeathsig: syscall.SIGKILL}
	in, err := cmd.StdinPipe()
	if err != nil {
		return err
	}
	out, err := cmd.StdoutPipe()
	if err != nil {
		return err
	}
	if err := cmd.Start(); err != nil {
		return err
	}
	s.cmd, s.in, s.out = cmd, in, bufio.NewReaderSize(out, 1<<20)
	return nil
}

// Close stops the server.
func (s *Server) Close() {
	if s.cmd != nil {
		s.in.Close()
		s.cmd.Process.Kill()
		s.cmd.Wait()
		s.cmd = nil
	}
}

// Run performs one invocation. If the server process dies (fatal error,
// os.Exit inside gopatch) the death is reported as a Panic result and the
// server is restarted.
func (s *Server) Run(cwd string, args []string, stdin string) Result {
	if s.cmd == nil {
		if err := s.start(); err != nil {
			return Result{Exit: -1, Panic: "cannot start driver: " + err.Error()}
		}
	}
	b, _ := json.Marshal(req{Cwd: cwd, Args: args, Stdin: stdin})
	b = append(b, '\n')
	if _, err := s.in.Write(b); err != nil {
		s.Close()
		return Result{Exit: -1, Panic: "driver died (write): " + err.Error()}
	}
	line, err := s.out.ReadBytes('\n')
	if err != nil {
		s.Close()
		return Result{Exit: -1, Panic: "driver process died while serving the request: " + err.Error()}
	}
	var r Result
	if err := json.Unmarshal(line, &r); err != nil {
		s.Close()
		return Result{Exit: -1, Panic: "bad driver response: " + err.Error()}
	}
	return r
}

// RunReal runs the real binary as a subprocess (60 s limit).
func RunReal(bin, cwd string, args []string, stdin string) Result {
	ctx, cancel := context.WithTimeout(context.Background(), 60*time.Second)
	defer cancel()
	cmd := exec.CommandContext(ctx, bin, args...)
	cmd.Dir = cwd
	cmd.Stdin = bytes.NewReader([]byte(stdin))
	var so, se bytes.Buffer
	cmd.Stdout, cmd.Stderr = &so, &se
	err := cmd.Run()
	r := Result{Stdout: so.String(), Stderr: se.String()}
	if ctx.Err() != nil {
		r.Exit = -1
		r.Panic = "timeout after 60s"
		return r
	}
	if err != nil {
		if ee, ok := err.(*exec.ExitError); ok {
			r.Exit = ee.ExitCode()
			if r.Exit == 2 && bytes.Contains(se.Bytes(), []byte("goroutine ")) {
				r.Panic = "process crashed: " + firstLines(se.String(), 3)
			}
			if r.Exit < 0 {
				r.Panic = fmt.Sprintf("killed by signal: %v", err)
			}
		} else {
			r.Exit = -1
			r.Panic = err.Error()
		}
	}
	return r
}

func firstLines(s string, n int) string {
	out := ""
	for i := 0; i < n; i++ {
		j := bytes.IndexByte([]byte(s), '\n')
		if j < 0 {
			return out + s
		}
		out += s[:j+1]
		s = s[j+1:]
	}
	return out
}
