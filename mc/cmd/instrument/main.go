// instrument generates, from the current sources of /repo, copies with
// scheduler yield points and the overlay file that makes `go build` use them.
//
//	instrument <repo> <outdir> <overlay-src-dir>
//
// Yield points (verifsched.Point()) are inserted at the entry of every
// function and function literal of the packages patch and internal/**, and
// additionally before every statement of the functions of package patch (the
// API entry points, whose statements call out to go/format, x/tools/imports
// and the engine). Methods of engine.span are left alone: the interval-set
// library may call them from its own helper goroutine.
package main

import (
	"bytes"
	"encoding/json"
	"fmt"
	"go/ast"
	"go/format"
	"go/parser"
	"go/token"
	"os"
	"path/filepath"
	"strings"
)

func main() {
	repo, out, osrc := os.Args[1], os.Args[2], os.Args[3]
	// optional 4th argument: comma-separated list of directory prefixes to instrument (default: patch/,internal/)
	prefixes := []string{"patch/", "internal/"}
	if len(os.Args) > 4 {
		prefixes = strings.Split(os.Args[4], ",")
	}
	os.RemoveAll(filepath.Join(out, "src"))
	overlay := map[string]string{}
	points := 0
	var files []string
	filepath.Walk(repo, func(p string, info os.FileInfo, err error) error {
		if err != nil {
			return nil
		}
		rel, _ := filepath.Rel(repo, p)
		if info.IsDir() {
			if strings.HasPrefix(info.Name(), ".") || rel == "testdata" || rel == "tools" || rel == "examples" || rel == "docs" {
				return filepath.SkipDir
			}
			return nil
		}
		// changelog.go is left alone: its methods and callbacks are invoked by the interval-set
		// library, partly from that library's own helper goroutine, which the scheduler does not manage
		if strings.HasSuffix(p, ".go") && !strings.HasSuffix(p, "_test.go") && rel != "internal/engine/changelog.go" {
			for _, pre := range prefixes {
				if strings.HasPrefix(rel, pre) {
					files = append(files, rel)
					break
				}
			}
		}
		return nil
	})
	for _, rel := range files {
		fset := token.NewFileSet()
		f, err := parser.ParseFile(fset, filepath.Join(repo, rel), nil, parser.ParseComments)
		if err != nil {
			fmt.Fprintln(os.Stderr, "instrument:", err)
			os.Exit(1)
		}
		stmtLevel := strings.HasPrefix(rel, "patch/")
		n := instrument(f, stmtLevel)
		if n == 0 {
			continue
		}
		points += n
		addImport(f)
		var buf bytes.Buffer
		if err := format.Node(&buf, fset, f); err != nil {
			fmt.Fprintln(os.Stderr, "instrument: print", rel, err)
			os.Exit(1)
		}
		dst := filepath.Join(out, "src", rel)
		os.MkdirAll(filepath.Dir(dst), 0o755)
		if err := os.WriteFile(dst, buf.Bytes(), 0o644); err != nil {
			fmt.Fprintln(os.Stderr, err)
			os.Exit(1)
		}
		overlay[filepath.Join(repo, rel)] = dst
	}
	// virtual packages
	overlay[filepath.Join(repo, "verifsched", "sched.go")] = filepath.Join(osrc, "verifsched", "sched.go")
	overlay[filepath.Join(repo, "verifc14", "main.go")] = filepath.Join(osrc, "c14", "main.go")
	b, _ := json.MarshalIndent(map[string]any{"Replace": overlay}, "", " ")
	if err := os.WriteFile(filepath.Join(out, "overlay.json"), b, 0o644); err != nil {
		fmt.Fprintln(os.Stderr, err)
		os.Exit(1)
	}
	// the same virtual packages without instrumentation, for the free-running race pass
	plain := map[string]string{
		filepath.Join(repo, "verifsched", "sched.go"): filepath.Join(osrc, "verifsched", "sched.go"),
		filepath.Join(repo, "verifc14", "main.go"):    filepath.Join(osrc, "c14", "main.go"),
	}
	b, _ = json.MarshalIndent(map[string]any{"Replace": plain}, "", " ")
	os.WriteFile(filepath.Join(out, "overlay-plain.json"), b, 0o644)
	fmt.Printf("instrumented %d files, %d static yield points\n", len(overlay)-2, points)
}

func pointStmt() ast.Stmt {
	return &ast.ExprStmt{X: &ast.CallExpr{Fun: &ast.SelectorExpr{X: ast.NewIdent("verifsched"), Sel: ast.NewIdent("Point")}}}
}

func instrument(f *ast.File, stmtLevel bool) int {
	n := 0
	isFuncBody := map[*ast.BlockStmt]bool{}
	clauses := map[*ast.BlockStmt]bool{}
	var blocks []*ast.BlockStmt
	ast.Inspect(f, func(nd ast.Node) bool {
		switch x := nd.(type) {
		case *ast.FuncDecl:
			if x.Recv != nil && len(x.Recv.List) == 1 {
				if se, ok := x.Recv.List[0].Type.(*ast.StarExpr); ok {
					if id, ok := se.X.(*ast.Ident); ok && id.Name == "span" {
						return false
					}
				}
			}
			if x.Body != nil {
				isFuncBody[x.Body] = true
			}
		case *ast.FuncLit:
			isFuncBody[x.Body] = true
		case *ast.SwitchStmt: // the body of a switch / select holds clauses, not statements
			clauses[x.Body] = true
		case *ast.TypeSwitchStmt:
			clauses[x.Body] = true
		case *ast.SelectStmt:
			clauses[x.Body] = true
		case *ast.BlockStmt:
			if clauses[x] {
				return true
			}
			if isFuncBody[x] || stmtLevel {
				blocks = append(blocks, x)
			}
		}
		return true
	})
	for _, b := range blocks {
		var out []ast.Stmt
		if isFuncBody[b] {
			out = append(out, pointStmt())
			n++
		}
		for i, s := range b.List {
			if stmtLevel && !(i == 0 && isFuncBody[b]) {
				out = append(out, pointStmt())
				n++
			}
			out = append(out, s)
		}
		b.List = out
	}
	return n
}

func addImport(f *ast.File) {
	spec := &ast.ImportSpec{Path: &ast.BasicLit{Kind: token.STRING, Value: `"github.com/uber-go/gopatch/verifsched"`}}
	decl := &ast.GenDecl{Tok: token.IMPORT, Specs: []ast.Spec{spec}}
	f.Decls = append([]ast.Decl{decl}, f.Decls...)
}
