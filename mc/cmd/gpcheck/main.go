// gpcheck is the single entry point of the /verif machinery.
//
//	gpcheck run <ID> <quick|thorough>
//	gpcheck worker <ID> <tier> <shard> <n> [--from k] [--careful] [--budget s] [--hashfile f]
//	gpcheck replay <violation.json> [--quiet]
//	gpcheck list
package main

import (
	"fmt"
	"os"
	"strconv"
	"time"

	"verifmc/core"
	_ "verifmc/props"
)

func main() {
	if len(os.Args) < 2 {
		fmt.Fprintln(os.Stderr, "usage: gpcheck run|worker|replay|list ...")
		os.Exit(2)
	}
	switch os.Args[1] {
	case "list":
		for _, id := range core.IDs() {
			fmt.Println(id)
		}
	case "run":
		if len(os.Args) < 4 {
			fmt.Fprintln(os.Stderr, "usage: gpcheck run <ID> <tier>")
			os.Exit(2)
		}
		p := core.Lookup(os.Args[2])
		if p == nil {
			fmt.Fprintln(os.Stderr, "unknown property", os.Args[2])
			os.Exit(2)
		}
		self, _ := os.Executable()
		os.Exit(core.RunProperty(p, os.Args[3], self))
	case "worker":
		p := core.Lookup(os.Args[2])
		if p == nil {
			os.Exit(2)
		}
		o := core.WorkerOpts{Tier: os.Args[3]}
		o.Shard, _ = strconv.Atoi(os.Args[4])
		o.N, _ = strconv.Atoi(os.Args[5])
		for i := 6; i < len(os.Args); i++ {
			switch os.Args[i] {
			case "--from":
				i++
				o.From, _ = strconv.ParseInt(os.Args[i], 10, 64)
			case "--careful":
				o.Careful = true
			case "--budget":
				i++
				s, _ := strconv.Atoi(os.Args[i])
				o.Budget = time.Duration(s) * time.Second
			case "--hashfile":
				i++
				o.HashFile = os.Args[i]
			}
		}
		os.Exit(core.WorkerMain(p, o))
	case "replay":
		quiet := len(os.Args) > 3 && os.Args[3] == "--quiet"
		os.Exit(core.Replay(os.Args[2], quiet))
	default:
		fmt.Fprintln(os.Stderr, "unknown command", os.Args[1])
		os.Exit(2)
	}
}
