package gen

// Surroundings returns the catalogue S of declarations that must survive a
// rewrite elsewhere in the file untouched. None of them contains an instance
// of the C05 patterns.
func Surroundings() []string {
	return []string{
		"type G[K comparable, V any] struct {\n\tm map[K]V\n}",
		"func Map[T, U any](xs []T, f func(T) U) []U {\n\tvar out []U\n\tfor _, x := range xs {\n\t\tout = append(out, f(x))\n\t}\n\treturn out\n}",
		"type Num interface {\n\t~int | ~int64 | ~float64\n\tString() string\n}",
		"func labels() {\nouter:\n\tfor i := 0; i < 3; i++ {\n\tinner:\n\t\tfor {\n\t\t\tswitch {\n\t\t\tcase i == 1:\n\t\t\t\tcontinue outer\n\t\t\tcase i == 2:\n\t\t\t\tbreak inner\n\t\t\tdefault:\n\t\t\t\tgoto done\n\t\t\t}\n\t\t}\n\t}\ndone:\n\treturn\n}",
		"type Tagged struct {\n\tA int    `json:\"a,omitempty\" yaml:\"a\"`\n\tB string `json:\"-\"`\n\tC, D   bool\n\tEmbedded\n\t*Ptr\n\tpkg.Sel\n}",
		"var raw = `line1\n// not a comment\n\t\"quoted\" \\n`",
		"var esc = \"a\\tb\\\"c\\\\\"",
		"const (\n\tA = iota\n\tB\n\t_\n\tC = 1 << iota\n\tD, E = iota, \"s\"\n)",
		"type Reader interface {\n\tio.Reader\n\tClose() error\n\tRead2(p []byte) (n int, err error)\n}",
		"func init() {\n\tregister(1)\n}",
		"func init() {\n\tregister(2)\n}",
		"var closure = func() func() func() int {\n\treturn func() func() int {\n\t\treturn func() int {\n\t\t\treturn 3\n\t\t}\n\t}\n}",
		"func sel(ch chan int, out chan<- string, in <-chan bool) {\n\tselect {\n\tcase v := <-ch:\n\t\t_ = v\n\tcase out <- \"s\":\n\tcase b, ok := <-in:\n\t\t_, _ = b, ok\n\tdefault:\n\t}\n}",
		"func tsw(v interface{}) int {\n\tswitch t := v.(type) {\n\tcase int, int64:\n\t\treturn 1\n\tcase nil:\n\t\treturn 2\n\tcase fmt.Stringer:\n\t\t_ = t\n\t\tfallthrough\n\tdefault:\n\t\treturn 0\n\t}\n}",
		"func (r *Recv[T]) Method(a, b int, rest ...string) (n int, err error) {\n\tdefer func() {\n\t\tif e := recover(); e != nil {\n\t\t\terr = fmt.Errorf(\"%v\", e)\n\t\t}\n\t}()\n\tgo r.run(a)\n\treturn a + b, nil\n}",
		"func (Recv2) M() {}",
		"func external(a int) int",
		"type (\n\tAlias = map[string][]int\n\tDef   Alias\n\tFn    func(int, ...string) (bool, error)\n\tCh    chan<- <-chan int\n\tArr   [4][]*[2]int\n)",
		"var (\n\tx, y int = 1, 2\n\tz       = []struct{ a, b int }{{1, 2}, {a: 3}}\n\tm       = map[string]func(){\"k\": func() {}}\n)",
		"var _ = [...]string{2: \"c\", 0: \"a\"}",
		"var _ = s[1:2:3] + t[:] + u[i].f.(T).g",
		"var _ = -x + ^y - +z*(*p)/q%r<<2>>1&3|4&^5",
		"var _ = a && b || !c == (d != e) && f < g",
		"var _ = 'x' + 0x1F + 1e3 + 2i + 0b101 + 0o17 + 1_000",
		"func ops() {\n\tx++\n\ty--\n\tx += 1\n\ty <<= 2\n\ta, b = b, a\n\tc, d := e()\n\t_, _ = c, d\n\tvar local int\n\tconst k = 1\n\ttype T struct{}\n\t_ = local\n}",
		"func ctl(n int) {\n\tif x := n; x > 0 {\n\t} else if x < 0 {\n\t} else {\n\t}\n\tfor ; n > 0; n-- {\n\t}\n\tfor range n {\n\t}\n\tfor i, c := range \"s\" {\n\t\t_, _ = i, c\n\t}\n\tswitch x := n; {\n\tcase x > 1:\n\t}\n\t{\n\t\tn := n\n\t\t_ = n\n\t}\n}",
		"func variadic(xs ...int) int {\n\treturn sum(xs...) + sum(1, 2) + sum()\n}",
		"func generic() {\n\t_ = Map[int, string](nil, nil)\n\tvar g G[string, int]\n\t_ = g\n}",
		"type Emb struct {\n\tsync.Mutex\n\t*bytes.Buffer\n\tG[int, string]\n}",
	}
}
