package gen

// Construct is one snippet of the construct catalogue K.
type Construct struct {
	ID   string
	Kind string // expr | stmts | decl  (= model pattern kind)
	Src  string
}

// Constructs returns K: at least one snippet for every go/ast node type and
// every field of it that Go syntax can populate.
func Constructs() []Construct {
	var out []Construct
	add := func(kind string, srcs ...string) {
		for _, s := range srcs {
			out = append(out, Construct{ID: kind + ":" + s, Kind: kind, Src: s})
		}
	}
	add("expr",
		"v", "1", `"s"`, "'c'", "1.5", "2i",
		"a + b", "a && b", "a == b", "a << b", "a &^ b", "-a", "!a", "^a", "&a", "*p", "<-ch",
		"(a)", "a.b", "a.b.c", "a[i]", "a[i:j]", "a[:j]", "a[i:]", "a[i:j:k]", "a[:]", "a.(T)",
		"f()", "f(a)", "f(a, b)", "f(a...)", "f(a, b...)", "f(g(a), h(b))",
		"T{}", "T{a, b}", "T{k: v}", "T{k: v, l: w}", "[]T{a}", "[...]T{a}", "[2]T{a, b}", "map[K]V{k: v}", "&T{a}", "struct{ a int }{1}", "[][]T{{a}, {b}}",
		"g(func() {})", "g(func(a int) int { return a })", "g(func(a, b int, c ...string) (n int, err error) { return })",
		"f[T](a)", "f[T, U](a)", "m[k]", "m[k](a)",
		"[]byte(s)", "(*T)(p)", "chan int(c)", "g((<-chan int)(c))", "g((chan<- int)(c))", "map[string][]int(nil)", "interface{}(v)", "g(interface{ m() }(v))", "g(func(int) error(nil))",
		"a.b(c).d[e]", "x0 + 1*y0 - z0",
		// boundary spellings and less-travelled forms
		"größe", "π + a", "0x1F", "1_000", "0b101", "0o17", "1e3", "'\\n'", "`raw\\n`", `"esc\t\"q\""`, "T.m", "(*T).m", "g(T.m, (*T).m)", "struct{ a, b int }{a: 1}", "g(_)", "a.b[i].c(d...)", "f(a)(b)(c)", "*&a", "-(-a)", "!(!a)", "a.(interface{ m() })", "[]struct{ a int }{{1}, {a: 2}}",
		"max(a, b)", "min(a, 1)", "g(clear, m)", "0x1p-2", "1i", "`@@\\n-a\\n+b\\n ...\\n# c`", "g(func(int) error(f))", "(func())(a)", "a.m", "g(a.m, T.m)", "[2]int{a, b}[i]",
	)
	add("stmts",
		"a = b", "a, b = b, a", "a := b", "a, b := f()", "a += b", "a <<= b", "a++", "a--", "ch <- v",
		"go f(a)", "defer f(a)", "return", "return a", "return a, b", "break", "continue",
		"L:\n\tfor {\n\t\tbreak L\n\t}", "L:\n\tfor {\n\t\tcontinue L\n\t}", "L:\n\ta()\n\tgoto L",
		"switch {\ncase a:\n\tfallthrough\ncase b:\n}",
		"if a {\n\tb()\n}", "if a {\n\tb()\n} else {\n\tc()\n}", "if a {\n} else if b {\n}", "if v := f(); v {\n}", "if a {\n\tb()\n\tc()\n}",
		"for {\n}", "for a {\n}", "for i := 0; i < n; i++ {\n}", "for ; i < n; {\n}", "for i := 0; ; {\n}", "for ; ; i++ {\n}",
		"for range ch {\n}", "for k := range m {\n}", "for k, v := range m {\n}", "for k, v = range m {\n}", "for _, v := range m {\n\tb(v)\n}",
		"switch {\n}", "switch v {\ncase 1:\n\ta()\ndefault:\n\tb()\n}", "switch v := f(); v {\ncase 1, 2:\n}", "switch v.(type) {\ncase int:\n}", "switch t := v.(type) {\ncase int, string:\n\t_ = t\ndefault:\n}",
		"select {\ncase <-ch:\n\ta()\ncase ch <- v:\ndefault:\n}", "select {\ncase v := <-ch:\n\t_ = v\ncase v, ok := <-ch:\n\t_, _ = v, ok\n}", "select {\n}",
		"if c {\n\t{\n\t\ta()\n\t}\n}", "if c {\n\tvar v int\n}", "for {\n\tvar v, w = 1, 2\n\tconst c = 1\n\ttype T int\n}",
		"a = b\nc = d", "a := f()\nb(a)\nreturn a",
		"_ = a", "_, a = f()", "größe := a", "L:\n\tselect {\n\tcase <-ch:\n\t\tbreak L\n\t}", "switch v := a.(type) {\ncase nil:\n\t_ = v\n}", "for {\n\tselect {\n\tdefault:\n\t}\n}", "go func() {\n\tdefer a()\n}()", "if a := f(); a {\n\tgoto L\n}\nL:\n\tb()",
		"for i := range 10 {\n\ta(i)\n}", "for range 3 {\n}", "for i := range f {\n}", "clear(m)", "L:\n\t{\n\t\ta()\n\t}",
	)
	add("decl",
		"var v int", "var v = 1", "var v int = 1", "var a, b int", "var a, b = 1, 2", "var (\n\ta = 1\n)", "var (\n\ta = 1\n\tb = 2\n)", "var ()",
		"const c = 1", "const c int = 1", "const (\n\ta = iota\n\tb\n)",
		"type T int", "type T = int", "type T struct{}", "type T struct {\n\ta int\n\tb, c string `tag`\n\tE\n\t*F\n\tp.G\n}",
		"type I interface {\n\tm()\n\tn(a int) error\n\tE\n}", "type I interface {\n\t~int | string\n}", "type I interface{}",
		"type F func(int) error", "type F func(a, b int, c ...string) (n int, err error)", "type G[T any] struct {\n\tv T\n}", "type G[K comparable, V any] map[K]V",
		"type (\n\tA int\n\tB string\n)", "type C chan int", "type C <-chan int", "type C chan<- int", "type M map[string][]int", "type A [3]int", "type S []int", "type P *int", "type Q p.T",
		"func f() {}", "func f(a int) {}", "func f(a, b int, c ...string) (int, error) {\n\treturn 0, nil\n}", "func f() (n int) {\n\treturn\n}",
		"func (r T) m() {}", "func (r *T) m() {}", "func (T) m() {}", "func (r G[T]) m() {}", "func f[T any](v T) T {\n\treturn v\n}", "func f[T, U any, V ~int]() {}", "func f()",
		"func f() {\n\ta()\n\tb()\n}",
		"func _() {}", "func (T) _() {}", "var _ = a", "var _, b = f()", "const (\n\ta = iota\n\t_\n\tc\n)", "type T struct {\n\t_ int\n\ta int `k:\"v\"`\n}", "type größe int", "type T[P interface{ ~int | ~string }] []P", "func f[T any, PT interface{ *T }](v PT) {}", "var f = g[int]", "type T struct {\n\tG[int]\n\t*p.H[string]\n}",
	)
	return out
}
