// Package gen holds the finite catalogues from which the universes are built.
package gen

import "strings"

// Ctx is a file skeleton with one hole "§".
type Ctx struct {
	ID   string
	Kind string // what fits the hole: expr | ident | stmt | type | decl | topdecl
	Src  string
}

// Fill puts code into the hole.
func (c Ctx) Fill(code string) string { return strings.ReplaceAll(c.Src, "§", code) }

func fn(body string) string { return "package p\n\nfunc _() {\n\t" + body + "\n}\n" }

// ExprContexts: every kind of slot that can hold an arbitrary expression.
func ExprContexts() []Ctx {
	c := func(id, src string) Ctx { return Ctx{ID: id, Kind: "expr", Src: src} }
	return []Ctx{
		c("call-arg", fn("h(§)")),
		c("call-arg-2nd", fn("h(1, §, 3)")),
		c("call-fun", fn("(§)(1)")),
		c("call-variadic-arg", fn("h(1, (§)...)")),
		c("binary-left", fn("_ = § + 1")),
		c("binary-right", fn("_ = 1 * §")),
		c("unary", fn("_ = !§")),
		c("star", fn("_ = *§")),
		c("paren", fn("_ = (§)")),
		c("index-x", fn("_ = (§)[0]")),
		c("index-i", fn("_ = v[§]")),
		c("slice-lo", fn("_ = v[§:]")),
		c("slice-hi", fn("_ = v[:§]")),
		c("slice-max", fn("_ = v[1:2:§]")),
		c("selector-x", fn("_ = (§).f")),
		c("type-assert-x", fn("_ = (§).(T)")),
		c("kv-key", fn("_ = M{§: 1}")),
		c("kv-value", fn("_ = M{k: §}")),
		c("composite-elt", fn("_ = []T{1, §}")),
		c("composite-nested", fn("_ = [][]T{{§}}")),
		c("assign-rhs", fn("v = §")),
		c("assign-lhs", fn("§ = 1")),
		c("define-rhs", fn("v := §\n\t_ = v")),
		c("assign-op", fn("v += §")),
		c("incdec", fn("(§)++")),
		c("send-value", fn("ch <- §")),
		c("send-chan", fn("(§) <- 1")),
		c("recv", fn("_ = <-§")),
		c("return-1", "package p\n\nfunc _() int {\n\treturn §\n}\n"),
		c("return-2", "package p\n\nfunc _() (int, int) {\n\treturn 1, §\n}\n"),
		c("if-cond", fn("if § {\n\t}")),
		c("if-init", fn("if v := §; v {\n\t}")),
		c("else-if-cond", fn("if a {\n\t} else if § {\n\t}")),
		c("for-cond", fn("for § {\n\t}")),
		c("for-init", fn("for i := §; ; {\n\t}")),
		c("for-post", fn("for ; ; i = § {\n\t}")),
		c("range-x", fn("for range § {\n\t}")),
		c("range-kv-x", fn("for k, v := range § {\n\t\t_, _ = k, v\n\t}")),
		c("switch-tag", fn("switch § {\n\t}")),
		c("switch-init", fn("switch v := §; v {\n\t}")),
		c("case-expr", fn("switch v {\n\tcase 1, §:\n\t}")),
		c("typeswitch-x", fn("switch (§).(type) {\n\t}")),
		c("select-send", fn("select {\n\tcase ch <- §:\n\t}")),
		c("select-recv", fn("select {\n\tcase v := <-§:\n\t\t_ = v\n\t}")),
		c("defer-arg", fn("defer h(§)")),
		c("go-arg", fn("go h(§)")),
		c("expr-stmt-arg", fn("h(g(§))")),
		c("labeled", fn("L:\n\th(§)\n\tgoto L")),
		c("func-lit-body", fn("_ = func() int { return § }")),
		c("func-lit-nested-3", fn("_ = func() { func() { func() { h(§) }() }() }")),
		c("block-nested", fn("{\n\t\t{\n\t\t\th(§)\n\t\t}\n\t}")),
		c("var-decl-value", "package p\n\nvar v = §\n"),
		c("var-decl-grouped", "package p\n\nvar (\n\ta = 1\n\tb = §\n)\n"),
		c("var-decl-typed", "package p\n\nvar v T = §\n"),
		c("const-decl", "package p\n\nconst c = §\n"),
		c("local-var", fn("var v = §\n\t_ = v")),
		c("array-len", "package p\n\nvar v [§]int\n"),
		c("method-body", "package p\n\nfunc (r T) m() {\n\th(§)\n}\n"),
		c("second-func", "package p\n\nfunc a() {}\n\nfunc b() {\n\th(§)\n}\n\nfunc c() {}\n"),
		c("generic-func-body", "package p\n\nfunc g[T any](v T) {\n\th(§)\n}\n"),
		c("generic-call-arg", fn("h[int](§)")),
	}
}

// IdentContexts: slots that syntactically accept only a name.
func IdentContexts() []Ctx {
	c := func(id, src string) Ctx { return Ctx{ID: id, Kind: "ident", Src: src} }
	return []Ctx{
		c("selector-sel", fn("_ = v.§")),
		c("func-name", "package p\n\nfunc §() {}\n"),
		c("method-name", "package p\n\nfunc (r T) §() {}\n"),
		c("recv-name", "package p\n\nfunc (§ T) m() {}\n"),
		c("param-name", "package p\n\nfunc f(§ int) {}\n"),
		c("result-name", "package p\n\nfunc f() (§ int) { return }\n"),
		c("field-name", "package p\n\ntype T struct {\n\t§ int\n}\n"),
		c("iface-method-name", "package p\n\ntype I interface {\n\t§()\n}\n"),
		c("type-name", "package p\n\ntype § int\n"),
		c("type-param-name", "package p\n\nfunc f[§ any]() {}\n"),
		c("var-name", "package p\n\nvar § = 1\n"),
		c("const-name", "package p\n\nconst § = 1\n"),
		c("define-lhs", fn("§ := 1")),
		c("range-key", fn("for § := range v {\n\t}")),
		c("range-value", fn("for _, § := range v {\n\t}")),
		c("range-key-assigned", fn("for § = range v {\n\t}")),
		c("define-lhs-2nd", fn("a, § := 1, 2\n\t_ = a")),
		c("define-in-if", fn("if § := 1; true {\n\t}")),
		c("select-recv-define", fn("select {\n\tcase § := <-ch:\n\t}")),
		c("label-decl", fn("§:\n\tfor {\n\t\tbreak §\n\t}")),
		c("package-name", "package §\n"),
		c("import-name", "package p\n\nimport § \"x/y\"\n"),
		c("kv-key-ident", fn("_ = T{§: 1}")),
		c("call-fun-ident", fn("§(1)")),
		c("type-use", "package p\n\nvar v §\n"),
		c("embedded-field", "package p\n\ntype T struct {\n\t§\n}\n"),
	}
}

// StmtContexts: every kind of statement list.
func StmtContexts() []Ctx {
	c := func(id, src string) Ctx { return Ctx{ID: id, Kind: "stmt", Src: src} }
	return []Ctx{
		c("func-body", fn("pre()\n\t§\n\tpost()")),
		c("func-body-only", fn("§")),
		c("func-lit", fn("_ = func() {\n\t\tpre()\n\t\t§\n\t}")),
		c("if-body", fn("if c {\n\t\t§\n\t}")),
		c("else-body", fn("if c {\n\t\tpre()\n\t} else {\n\t\t§\n\t}")),
		c("else-if-body", fn("if c {\n\t} else if d {\n\t\t§\n\t}")),
		c("for-body", fn("for {\n\t\t§\n\t}")),
		c("range-body", fn("for range v {\n\t\t§\n\t}")),
		c("bare-block", fn("pre()\n\t{\n\t\t§\n\t}")),
		c("case-clause", fn("switch v {\n\tcase 1:\n\t\t§\n\tdefault:\n\t\tpre()\n\t}")),
		c("default-clause", fn("switch v {\n\tcase 1:\n\tdefault:\n\t\t§\n\t}")),
		c("typeswitch-clause", fn("switch v.(type) {\n\tcase int:\n\t\t§\n\t}")),
		c("select-clause", fn("select {\n\tcase <-ch:\n\t\t§\n\t}")),
		c("select-default", fn("select {\n\tdefault:\n\t\t§\n\t}")),
		c("labeled-block", fn("L:\n\t{\n\t\t§\n\t\tbreak L\n\t}")),
		c("method-body", "package p\n\nfunc (r *T) m() {\n\t§\n}\n"),
		c("nested-3", fn("for {\n\t\tif c {\n\t\t\tswitch {\n\t\t\tcase d:\n\t\t\t\t§\n\t\t\t}\n\t\t}\n\t}")),
		c("third-func", "package p\n\nfunc a() {}\n\nfunc b() {}\n\nfunc c() {\n\t§\n}\n"),
		c("init-func", "package p\n\nfunc init() {\n\t§\n}\n"),
		c("go-func-lit", fn("go func() {\n\t\t§\n\t}()")),
		c("defer-func-lit", fn("defer func() {\n\t\t§\n\t}()")),
		// function literals that hang off declarations and composite literals rather than statements
		c("var-func-lit", "package p\n\nvar h = func() {\n\t§\n}\n"),
		c("var-composite-func-lit", "package p\n\nvar cmd = &Command{Run: func() {\n\t§\n}}\n"),
		c("var-called-func-lit", "package p\n\nvar _ = func() int {\n\t§\n\treturn 0\n}()\n"),
		c("local-var-func-lit", fn("var f = func() {\n\t\t§\n\t}\n\t_ = f")),
		c("const-group-neighbour", "package p\n\nconst (\n\tA = iota\n\tB\n)\n\nfunc after() {\n\t§\n}\n"),
		c("arg-func-lit", fn("t.Run(\"x\", func() {\n\t\t§\n\t})")),
		c("return-func-lit", "package p\n\nfunc mk() func() {\n\treturn func() {\n\t\t§\n\t}\n}\n"),
	}
}

// DeclContexts: places where a declaration (var/const/type) can stand.
func DeclContexts() []Ctx {
	c := func(id, src string) Ctx { return Ctx{ID: id, Kind: "decl", Src: src} }
	return []Ctx{
		c("top-level", "package p\n\n§\n"),
		c("top-level-between", "package p\n\nfunc a() {}\n\n§\n\nfunc b() {}\n"),
		c("in-func", fn("§")),
		c("in-func-nested", fn("if c {\n\t\t§\n\t}")),
		c("in-func-lit", fn("_ = func() {\n\t\t§\n\t}")),
	}
}

// TypeContexts: slots that hold a type expression.
func TypeContexts() []Ctx {
	c := func(id, src string) Ctx { return Ctx{ID: id, Kind: "type", Src: src} }
	return []Ctx{
		c("var-type", "package p\n\nvar v §\n"),
		c("slice-elem", "package p\n\nvar v []§\n"),
		c("map-key", "package p\n\nvar v map[§]int\n"),
		c("map-value", "package p\n\nvar v map[string]§\n"),
		c("chan-elem", "package p\n\nvar v chan §\n"),
		c("array-elem", "package p\n\nvar v [3]§\n"),
		c("pointer-elem", "package p\n\nvar v *§\n"),
		c("param-type", "package p\n\nfunc f(a §) {}\n"),
		c("variadic-type", "package p\n\nfunc f(a ...§) {}\n"),
		c("result-type", "package p\n\nfunc f() § { panic(0) }\n"),
		c("named-result-type", "package p\n\nfunc f() (r §, err error) { return }\n"),
		c("recv-type", "package p\n\nfunc (r §) m() {}\n"),
		c("recv-ptr-type", "package p\n\nfunc (r *§) m() {}\n"),
		c("field-type", "package p\n\ntype T struct {\n\tf §\n}\n"),
		c("type-def", "package p\n\ntype U §\n"),
		c("type-alias", "package p\n\ntype U = §\n"),
		c("conversion", fn("_ = §(1)")),
		c("type-assert", fn("_ = v.(§)")),
		c("typeswitch-case", fn("switch v.(type) {\n\tcase §:\n\t}")),
		c("composite-elem-type", fn("_ = []§{}")),
		c("composite-type", fn("_ = §{1}")),
		c("constraint", "package p\n\nfunc f[P §]() {}\n"),
		c("type-arg", fn("_ = g[§](1)")),
		c("iface-embed", "package p\n\ntype I interface {\n\t§\n}\n"),
		c("func-lit-param", fn("_ = func(a §) {}")),
		c("new-arg", fn("_ = new(§)")),
	}
}
