package gen

import (
	"bytes"
	"fmt"
	"go/ast"
	"go/parser"
	"go/printer"
	"go/token"
	"reflect"
	"strings"
)

// Mutant is a single-point deviation of a construct.
type Mutant struct {
	What string // which node.field was changed and how
	Src  string
}

// ParseConstruct parses a construct of the given kind and returns the nodes
// that make it up (one expression, one declaration, or a statement list).
func ParseConstruct(kind, src string) (*token.FileSet, []ast.Node, error) {
	fset := token.NewFileSet()
	switch kind {
	case "expr":
		e, err := parser.ParseExprFrom(fset, "k.go", src, parser.SkipObjectResolution)
		if err != nil {
			return nil, nil, err
		}
		return fset, []ast.Node{e}, nil
	case "stmts":
		f, err := parser.ParseFile(fset, "k.go", "package p\nfunc _() {\n"+src+"\n}\n", parser.SkipObjectResolution)
		if err != nil {
			return nil, nil, err
		}
		var ns []ast.Node
		for _, s := range f.Decls[0].(*ast.FuncDecl).Body.List {
			ns = append(ns, s)
		}
		return fset, ns, nil
	case "decl":
		f, err := parser.ParseFile(fset, "k.go", "package p\n"+src+"\n", parser.SkipObjectResolution)
		if err != nil {
			return nil, nil, err
		}
		if len(f.Decls) != 1 {
			return nil, nil, fmt.Errorf("want one declaration")
		}
		return fset, []ast.Node{f.Decls[0]}, nil
	}
	return nil, nil, fmt.Errorf("unknown kind %q", kind)
}

func printNodes(fset *token.FileSet, ns []ast.Node) (string, error) {
	var parts []string
	for _, n := range ns {
		var buf bytes.Buffer
		if err := (&printer.Config{Mode: printer.UseSpaces | printer.TabIndent, Tabwidth: 8}).Fprint(&buf, fset, n); err != nil {
			return "", err
		}
		parts = append(parts, buf.String())
	}
	return strings.Join(parts, "\n"), nil
}

var (
	posT   = reflect.TypeOf(token.NoPos)
	tokT   = reflect.TypeOf(token.ADD)
	dirT   = reflect.TypeOf(ast.SEND)
	nodeT  = reflect.TypeOf((*ast.Node)(nil)).Elem()
	cgT    = reflect.TypeOf((*ast.CommentGroup)(nil))
	objT   = reflect.TypeOf((*ast.Object)(nil))
	identT = reflect.TypeOf((*ast.Ident)(nil))
)

var tokenAlternatives = map[token.Token][]token.Token{
	token.ADD: {token.SUB, token.MUL}, token.SUB: {token.ADD}, token.MUL: {token.QUO, token.ADD}, token.LAND: {token.LOR}, token.EQL: {token.NEQ, token.LSS},
	token.SHL: {token.SHR}, token.AND_NOT: {token.AND}, token.NOT: {token.SUB}, token.XOR: {token.SUB}, token.AND: {token.MUL},
	token.ASSIGN: {token.DEFINE, token.ADD_ASSIGN}, token.DEFINE: {token.ASSIGN}, token.ADD_ASSIGN: {token.SUB_ASSIGN, token.ASSIGN}, token.SHL_ASSIGN: {token.SHR_ASSIGN},
	token.INC: {token.DEC}, token.DEC: {token.INC}, token.BREAK: {token.CONTINUE}, token.CONTINUE: {token.BREAK},
	token.VAR: {token.CONST}, token.CONST: {token.VAR}, token.ARROW: {token.MUL},
	token.INT: {token.FLOAT}, token.STRING: {token.CHAR},
}

// a mutation is a function applied to the i-th mutation point
type mutation struct {
	what  string
	apply func()
}

// collect walks the nodes and lists every single-point deviation.
func collect(ns []ast.Node) []mutation {
	var ms []mutation
	var walk func(v reflect.Value, path string)
	walk = func(v reflect.Value, path string) {
		switch v.Kind() {
		case reflect.Interface:
			if !v.IsNil() {
				walk(v.Elem(), path)
			}
		case reflect.Ptr:
			if v.IsNil() || v.Type() == cgT || v.Type() == objT {
				return
			}
			walk(v.Elem(), path)
		case reflect.Struct:
			t := v.Type()
			for i := 0; i < t.NumField(); i++ {
				f := t.Field(i)
				fv := v.Field(i)
				p := path + "/" + t.Name() + "." + f.Name
				switch {
				case f.Type == posT:
					// only the syntactically meaningful positions
					switch t.Name() + "." + f.Name {
					case "CallExpr.Ellipsis", "TypeSpec.Assign", "GenDecl.Lparen":
						if fv.Int() != 0 {
							ms = append(ms, mutation{p + ":clear", func() {
								fv.SetInt(0)
								if f.Name == "Lparen" {
									v.FieldByName("Rparen").SetInt(0)
								}
							}})
						} else {
							ms = append(ms, mutation{p + ":set", func() {
								fv.SetInt(int64(v.Addr().Interface().(ast.Node).End()))
								if f.Name == "Lparen" {
									fv.SetInt(int64(v.FieldByName("TokPos").Int()) + 1)
									v.FieldByName("Rparen").SetInt(int64(v.Addr().Interface().(ast.Node).End()))
								}
							}})
						}
					}
				case f.Type == tokT:
					cur := token.Token(fv.Int())
					for _, alt := range tokenAlternatives[cur] {
						alt := alt
						ms = append(ms, mutation{fmt.Sprintf("%s:%v->%v", p, cur, alt), func() { fv.SetInt(int64(alt)) }})
					}
				case f.Type == dirT:
					cur := ast.ChanDir(fv.Int())
					for _, alt := range []ast.ChanDir{ast.SEND, ast.RECV, ast.SEND | ast.RECV} {
						if alt != cur {
							alt := alt
							ms = append(ms, mutation{fmt.Sprintf("%s:dir%d->%d", p, cur, alt), func() { fv.SetInt(int64(alt)) }})
						}
					}
				case f.Type.Kind() == reflect.String:
					cur := fv.String()
					switch t.Name() {
					case "Ident":
						if cur != "_" {
							ms = append(ms, mutation{p + ":rename", func() { fv.SetString(cur + "2") }})
						}
					case "BasicLit":
						ms = append(ms, mutation{p + ":value", func() {
							switch {
							case strings.HasPrefix(cur, `"`):
								fv.SetString(`"other"`)
							case strings.HasPrefix(cur, "`"):
								fv.SetString("`other`")
							case strings.HasPrefix(cur, "'"):
								fv.SetString("'o'")
							case strings.HasSuffix(cur, "i"):
								fv.SetString("7i")
							case strings.Contains(cur, "."):
								fv.SetString("7.5")
							default:
								fv.SetString("7")
							}
						}})
					}
				case f.Type.Kind() == reflect.Bool:
					// Slice3, Incomplete, Implicit are consequences of other syntax
				case f.Type.Kind() == reflect.Slice:
					n := fv.Len()
					for j := 0; j < n; j++ {
						j := j
						ms = append(ms, mutation{fmt.Sprintf("%s[%d]:drop", p, j), func() {
							nv := reflect.MakeSlice(f.Type, 0, n)
							for q := 0; q < n; q++ {
								if q != j {
									nv = reflect.Append(nv, fv.Index(q))
								}
							}
							if nv.Len() == 0 {
								nv = reflect.Zero(f.Type)
							}
							fv.Set(nv)
						}})
						ms = append(ms, mutation{fmt.Sprintf("%s[%d]:dup", p, j), func() {
							nv := reflect.MakeSlice(f.Type, 0, n+1)
							for q := 0; q < n; q++ {
								nv = reflect.Append(nv, fv.Index(q))
								if q == j {
									nv = reflect.Append(nv, fv.Index(q))
								}
							}
							fv.Set(nv)
						}})
						if j+1 < n {
							ms = append(ms, mutation{fmt.Sprintf("%s[%d]:swap", p, j), func() {
								a, b := fv.Index(j).Interface(), fv.Index(j+1).Interface()
								fv.Index(j).Set(reflect.ValueOf(b))
								fv.Index(j + 1).Set(reflect.ValueOf(a))
							}})
						}
					}
					for j := 0; j < n; j++ {
						walk(fv.Index(j), fmt.Sprintf("%s[%d]", p, j))
					}
				case f.Type.Kind() == reflect.Ptr || f.Type.Kind() == reflect.Interface:
					if f.Type == cgT || f.Type == objT {
						continue
					}
					if !fv.IsNil() {
						ms = append(ms, mutation{p + ":nil", func() { fv.Set(reflect.Zero(f.Type)) }})
						walk(fv, p)
					}
				}
			}
		}
	}
	for i, n := range ns {
		walk(reflect.ValueOf(n), fmt.Sprintf("#%d", i))
	}
	return ms
}

// Mutants returns all single-point deviations of the construct that still
// print and re-parse as a construct of the same kind. Whether a mutant is
// still an instance of a pattern is for the model to decide.
func Mutants(kind, src string) []Mutant {
	_, ns, err := ParseConstruct(kind, src)
	if err != nil {
		panic(fmt.Sprintf("harness: construct does not parse: %v\n%s", err, src))
	}
	n := len(collect(ns))
	var out []Mutant
	seen := map[string]bool{src: true}
	for i := 0; i < n; i++ {
		fset, ns, _ := ParseConstruct(kind, src)
		ms := collect(ns)
		if len(ms) != n {
			panic("harness: mutation points are not stable")
		}
		txt, ok := applyAndPrint(fset, ns, ms[i])
		if !ok {
			continue
		}
		if _, _, err := ParseConstruct(kind, txt); err != nil {
			continue
		}
		if kind == "stmts" {
			// must also survive being followed by another statement
			if _, _, err := ParseConstruct(kind, txt+"\nzz()"); err != nil {
				continue
			}
		}
		if seen[txt] {
			continue
		}
		seen[txt] = true
		out = append(out, Mutant{What: ms[i].what, Src: txt})
	}
	return out
}

func applyAndPrint(fset *token.FileSet, ns []ast.Node, m mutation) (txt string, ok bool) {
	defer func() {
		if recover() != nil {
			ok = false
		}
	}()
	m.apply()
	// statement lists: a statement-level drop/dup is done by the caller on ns? no: ns are the
	// top-level nodes; mutations below them were applied in place.
	s, err := printNodes(fset, ns)
	if err != nil {
		return "", false
	}
	return s, true
}

// MetaHole is a construct in which one sub-expression has been replaced by the
// expression metavariable qx, or one identifier by the identifier metavariable qn.
type MetaHole struct {
	What   string // which node.field became the hole
	Src    string // pattern text
	MvKind string // "expression" | "identifier"
	MvName string
}

var exprT = reflect.TypeOf((*ast.Expr)(nil)).Elem()

// collectHoles lists every slot of static type ast.Expr (hole for an expression
// metavariable) and every *ast.Ident (hole for an identifier metavariable).
func collectHoles(ns []ast.Node) []mutation {
	var ms []mutation
	var walk func(v reflect.Value, path string)
	hole := func(fv reflect.Value, p string) {
		switch {
		case fv.Type() == exprT && !fv.IsNil():
			ms = append(ms, mutation{p + ":expr-hole", func() {
				fv.Set(reflect.ValueOf(ast.Expr(&ast.Ident{Name: "qx", NamePos: fv.Interface().(ast.Node).Pos()})))
			}})
			if id, ok := fv.Interface().(*ast.Ident); ok && id.Name != "_" {
				ms = append(ms, mutation{p + ":ident-hole", func() { id.Name = "qn" }})
			}
		case fv.Type() == identT && !fv.IsNil():
			id := fv.Interface().(*ast.Ident)
			if id.Name != "_" {
				ms = append(ms, mutation{p + ":ident-hole", func() { id.Name = "qn" }})
				// an expression metavariable written in a slot that only holds a name
				ms = append(ms, mutation{p + ":expr-hole-in-name-slot", func() { id.Name = "qx" }})
			}
		}
	}
	walk = func(v reflect.Value, path string) {
		switch v.Kind() {
		case reflect.Interface:
			if !v.IsNil() {
				walk(v.Elem(), path)
			}
		case reflect.Ptr:
			if v.IsNil() || v.Type() == cgT || v.Type() == objT {
				return
			}
			walk(v.Elem(), path)
		case reflect.Struct:
			t := v.Type()
			for i := 0; i < t.NumField(); i++ {
				f := t.Field(i)
				fv := v.Field(i)
				p := path + "/" + t.Name() + "." + f.Name
				switch {
				case f.Type == cgT || f.Type == objT:
				case f.Type.Kind() == reflect.Slice:
					for j := 0; j < fv.Len(); j++ {
						hole(fv.Index(j), fmt.Sprintf("%s[%d]", p, j))
						walk(fv.Index(j), fmt.Sprintf("%s[%d]", p, j))
					}
				case f.Type.Kind() == reflect.Ptr || f.Type.Kind() == reflect.Interface:
					if !fv.IsNil() {
						hole(fv, p)
						walk(fv, p)
					}
				}
			}
		}
	}
	for i, n := range ns {
		walk(reflect.ValueOf(n), fmt.Sprintf("#%d", i))
	}
	return ms
}

// MetaHoles returns the construct with each single sub-expression / identifier
// replaced by a metavariable (those that still print and re-parse as the same kind).
func MetaHoles(kind, src string) []MetaHole {
	_, ns, err := ParseConstruct(kind, src)
	if err != nil {
		panic(fmt.Sprintf("harness: construct does not parse: %v\n%s", err, src))
	}
	n := len(collectHoles(ns))
	var out []MetaHole
	seen := map[string]bool{}
	for i := 0; i < n; i++ {
		fset, ns, _ := ParseConstruct(kind, src)
		ms := collectHoles(ns)
		if len(ms) != n {
			panic("harness: hole points are not stable")
		}
		txt, ok := applyAndPrint(fset, ns, ms[i])
		if !ok {
			continue
		}
		if _, _, err := ParseConstruct(kind, txt); err != nil {
			continue
		}
		h := MetaHole{What: ms[i].what, Src: txt, MvKind: "expression", MvName: "qx"}
		if strings.HasSuffix(ms[i].what, ":ident-hole") {
			h.MvKind, h.MvName = "identifier", "qn"
		}
		if seen[h.MvKind+txt] {
			continue
		}
		seen[h.MvKind+txt] = true
		out = append(out, h)
	}
	return out
}
