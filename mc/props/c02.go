package props

import (
	"fmt"
	"strings"

	"verifmc/canon"
	"verifmc/core"
	"verifmc/model"
)

func init() {
	core.Register(&core.Property{
		ID:    "C02",
		Level: "model_checking",
		Rule: "universe = (F1 kinds) 6 pattern templates (call args k=2,3; binary; selector X.h / h.Sel; func name; type/field names) x every assignment of their holes to {expression metavariables x,y; identifier metavariables n,m; undeclared name q} (so every variable occurs 1..3 times) x every filling of the candidate from a filler catalogue (equal, almost-equal `a` vs `(a)` / `a.b` vs `a.b()`, different, identifiers spelled like the metavariables); " +
			"(F2 leakage) patterns f(x,x), f(x,y,x), n(n), lock(x);unlock(x), open(x);...;mark();...;close(x) and f(x, ..., 0, ..., x) (two elisions between the occurrences) x all sequences (length<=3, statements <=5) of matching / failing-after-binding / differently-bound / enclosing candidates; (F3 scoping) two-change patches where a later change uses a name only an earlier change declared. " +
			"The model binds per attempt from scratch. non-trivial = the model finds at least one instance",
		Bounds:  func(tier string) map[string]any { return map[string]any{"k": 3, "seq_len": c02SeqLen(tier)} },
		NewCase: func() any { return &SCase{} },
		Gen:     c02Gen,
		Setup:   cliSetup,
		Run: func(env *core.Env, ci any) core.Outcome {
			c := ci.(*SCase)
			var o core.Outcome
			if len(c.Changes) == 1 {
				opts := canon.Options{KeepParens: true}
				if strings.HasPrefix(c.Tag, "F4-") {
					opts.MaskImports = true // whether the matched import stays is C11's subject
				}
				o = judgeModelBoth(env, &MCase{Change: c.Changes[0], File: c.File, Tag: c.Tag, Decoy: c.Decoy}, opts, 1).Out
			} else {
				o = judgeSeqBoth(env, c, canon.Options{KeepParens: true})
			}
			if len(c.Changes) == 1 {
				o = rejectionIsViolation(o, c.Changes[0].Render(), c.File)
			}
			if o.Violation != "" {
				o.FindingKey = "C02:" + o.FindingKey + "/" + strings.SplitN(c.Tag, "/", 2)[0]
			}
			return o
		},
	})
}

func c02SeqLen(tier string) int {
	if tier == "thorough" {
		return 4
	}
	return 3
}

type c02Template struct {
	id    string
	kind  string
	holes int
	// minus/plus patterns and the candidate in the file, with %[1]s.. for the holes
	minus, plus, file string
	fill              [][]string // per hole: candidate fillers for the file
	identOnly         []bool     // hole is a name-only position (pattern side: expression metavariables still allowed)
}

var (
	c02ExprFill = []string{"a", "(a)", "b.c", "b.c()", "g(1)", "1", `"s"`, "a + b", "x", "n", "q", "func() {}",
		// pairs that differ only in a token go/ast encodes as position validity
		"g(b...)", "g(b)", "func() { type T = int }", "func() { type T int }", "func() { var (\n\tv int\n) }", "func() { var v int }",
		// compound code containing identifiers spelled like the metavariables; generic instantiations
		"g(x)", "g(z)", "x + 1", "z + 1", "Pair[int, string]", "p.List[int]",
		// pairs that differ only inside braces (abbreviated by summary printers)
		"T{1, 2}", "T{3, 4}", "func() int { return 1 }", "func() int { return 2 }",
		// identifiers outside ASCII
		"größe", "π.σ", "größe + 1"}
	c02IdentFill = []string{"a", "b", "x", "n", "q", "größe", "π"}
	c02TypeFill  = []string{"int", "b.T", "[]int", "x", "q", "n"}
)

func c02Templates() []c02Template {
	return []c02Template{
		{id: "call2", kind: "expr", holes: 2, minus: "f(%[1]s, %[2]s)", plus: "mark(%[2]s, %[1]s)", file: "package p\n\nfunc _() {\n\tf(%[1]s, %[2]s)\n}\n", fill: [][]string{c02ExprFill, c02ExprFill}},
		{id: "call3", kind: "expr", holes: 3, minus: "f(%[1]s, %[2]s, %[3]s)", plus: "mark(%[3]s, %[1]s, %[2]s)", file: "package p\n\nfunc _() {\n\tf(%[1]s, %[2]s, %[3]s)\n}\n",
			fill: [][]string{{"a", "(a)", "b.c", "g(1)", "x", "q", "g(b...)", "g(b)"}, {"a", "b.c", "b.c()", "g(1)", "n", "q"}, {"a", "(a)", "b.c", "g(1)", "x", "n", "g(b...)", "g(b)"}}},
		{id: "binary", kind: "expr", holes: 2, minus: "%[1]s + %[2]s", plus: "mark(%[1]s, %[2]s)", file: "package p\n\nvar _ = %[1]s + %[2]s\n", fill: [][]string{c02ExprFill, c02ExprFill}},
		{id: "selector", kind: "expr", holes: 2, minus: "%[1]s.%[2]s", plus: "mark(%[1]s).%[2]s", file: "package p\n\nvar _ = %[1]s.%[2]s\n", fill: [][]string{{"a", "(a)", "b.c", "g(1)", "x", "n", "q"}, c02IdentFill}, identOnly: []bool{false, true}},
		{id: "funcname", kind: "decl", holes: 2, minus: "func %[1]s() { %[2]s() }", plus: "func %[1]s() { mark(%[2]s) }", file: "package p\n\nfunc %[1]s() { %[2]s() }\n", fill: [][]string{c02IdentFill, {"a", "b.c", "x", "n", "q", "g(1)"}}, identOnly: []bool{true, false}},
		// a label is a name-only slot that may be absent: no kind of metavariable stands for "nothing"
		{id: "label", kind: "stmts", holes: 1, minus: "for { break %[1]s }", plus: "for { continue %[1]s }", file: "package p\n\nfunc _() {\nL:\n\tfor {\n\t\tfor {\n\t\t\tbreak %[1]s\n\t\t}\n\t}\n\tfor {\n\t\tbreak\n\t}\n}\n", fill: [][]string{{"L", "", "x"}}, identOnly: []bool{true}},
		{id: "typedecl", kind: "decl", holes: 3, minus: "type %[1]s struct{ %[2]s %[3]s }", plus: "type %[1]s struct{ mark, %[2]s %[3]s }", file: "package p\n\ntype %[1]s struct{ %[2]s %[3]s }\n", fill: [][]string{c02IdentFill, c02IdentFill, c02TypeFill}, identOnly: []bool{true, true, false}},
	}
}

var c02HoleVars = []string{"x", "y", "n", "m", "q"}

func c02Meta(vars []string) []model.MetaVar {
	var meta []model.MetaVar
	seen := map[string]bool{}
	for _, v := range vars {
		if seen[v] {
			continue
		}
		seen[v] = true
		switch v {
		case "x", "y":
			meta = append(meta, model.MetaVar{Name: v, Kind: "expression"})
		case "n", "m":
			meta = append(meta, model.MetaVar{Name: v, Kind: "identifier"})
		}
	}
	return meta
}

func sprintfHoles(format string, vals []string) string {
	args := make([]any, len(vals))
	for i, v := range vals {
		args[i] = v
	}
	s := fmt.Sprintf(format, args...)
	if i := strings.Index(s, "%!(EXTRA"); i >= 0 {
		s = s[:i]
	}
	return s
}

func product(lists [][]string, yield func([]string)) {
	cur := make([]string, len(lists))
	var rec func(i int)
	rec = func(i int) {
		if i == len(lists) {
			yield(append([]string{}, cur...))
			return
		}
		for _, v := range lists[i] {
			cur[i] = v
			rec(i + 1)
		}
	}
	rec(0)
}

func c02Gen(tier string, emit func(any)) {
	// F1: kinds and consistency
	for _, t := range c02Templates() {
		hv := make([][]string, t.holes)
		for i := range hv {
			hv[i] = c02HoleVars
		}
		product(hv, func(vars []string) {
			ch := &model.Change{Kind: t.kind, Meta: c02Meta(vars),
				Lines: model.L("-"+sprintfHoles(t.minus, vars), "+"+sprintfHoles(t.plus, vars))}
			product(t.fill, func(fill []string) {
				emit(&SCase{Changes: []*model.Change{ch}, File: sprintfHoles(t.file, fill), Tag: "F1-kinds/" + t.id + "/" + strings.Join(vars, "")})
			})
		})
	}
	// F2: leakage between attempts and sites
	exprMeta := []model.MetaVar{{Name: "x", Kind: "expression"}, {Name: "y", Kind: "expression"}}
	leakPats := []*model.Change{
		{Kind: "expr", Meta: exprMeta[:1], Lines: model.L("-f(x, x)", "+mark(x)")},
		{Kind: "expr", Meta: exprMeta, Lines: model.L("-f(x, y, x)", "+mark(y, x)")},
		{Kind: "expr", Meta: []model.MetaVar{{Name: "n", Kind: "identifier"}}, Lines: model.L("-n(n)", "+mark(n)")},
		{Kind: "expr", Meta: exprMeta[:1], Lines: model.L("-f(DOTS_1, x, x)", "+mark(DOTS_1, x)")},
		{Kind: "expr", Meta: exprMeta[:1], Lines: model.L("-f(x, DOTS_1, x)", "+mark(x, DOTS_1)")},
	}
	cands := []string{"f(a, a)", "f(a, b)", "f(b, b)", "f(a, f(b, b))", "f(f(a, b), f(a, b))", "f(b, a, b)", "f(a, b, b)", "f(b, b, a, a)", "a(a)", "a(b)", "f(f)"}
	for _, ch := range leakPats {
		for _, seq := range seqs(cands, c02SeqLen(tier)) {
			if len(seq) == 0 {
				continue
			}
			file := "package p\n\nfunc _() {\n\t" + strings.Join(seq, "\n\t") + "\n}\n"
			emit(&SCase{Changes: []*model.Change{ch}, File: file, Tag: "F2-leak-sites/" + ch.Lines[0].Text})
			if len(seq) >= 2 {
				// the same parsed patch was applied before to a file of the same name whose candidates sit at the same
				// positions with other contents (the sequence reversed): nothing of that attempt is remembered
				rev := append([]string{}, seq...)
				for i, j := 0, len(rev)-1; i < j; i, j = i+1, j-1 {
					rev[i], rev[j] = rev[j], rev[i]
				}
				emit(&SCase{Changes: []*model.Change{ch}, File: file, Decoy: "package p\n\nfunc _() {\n\t" + strings.Join(rev, "\n\t") + "\n}\n", Tag: "F2-leak-decoy/" + ch.Lines[0].Text})
			}
			// the same candidates nested as arguments of one call: attempts enclose each other
			if len(seq) >= 2 {
				file2 := "package p\n\nvar _ = h(" + strings.Join(seq, ", ") + ")\n"
				emit(&SCase{Changes: []*model.Change{ch}, File: file2, Tag: "F2-leak-nested/" + ch.Lines[0].Text})
			}
		}
	}
	// statement pattern whose first line binds and whose second line may contradict
	lockPats := []*model.Change{
		{Kind: "stmts", Meta: exprMeta[:1], Lines: model.L("-lock(x)", "-unlock(x)", "+withLock(x)")},
		{Kind: "stmts", Meta: exprMeta[:1], Lines: model.L("-lock(x)", " DOTS_1", "-unlock(x)", "+unlockLater(x)")},
		{Kind: "stmts", Meta: exprMeta, Lines: model.L("-lock(x)", "-work(y)", "-unlock(x)", "+withLock(x, y)")},
	}
	stmts := []string{"lock(a)", "lock(b)", "unlock(a)", "unlock(b)", "work(a)"}
	n := 5
	if tier == "thorough" {
		n = 6
	}
	for _, ch := range lockPats {
		for _, seq := range seqs(stmts, n) {
			if len(seq) < 2 {
				continue
			}
			file := "package p\n\nfunc _() {\n\t" + strings.Join(seq, "\n\t") + "\n}\n"
			emit(&SCase{Changes: []*model.Change{ch}, File: file, Tag: "F2-leak-stmts/" + ch.Lines[0].Text + ch.Lines[1].Text})
		}
	}
	// two elisions with a metavariable bound before the first and reused after the second: an attempt that
	// fails with one binding must not block the attempt with another (memoised failures, stale bindings)
	openPats := []*model.Change{
		{Kind: "stmts", Meta: exprMeta[:1], Lines: model.L("-open(x)", " DOTS_1", " mark()", " DOTS_2", "-close(x)", "+closeLater(x)")},
		{Kind: "expr", Meta: exprMeta[:1], Lines: model.L("-f(x, DOTS_1, 0, DOTS_2, x)", "+mark(x)")},
	}
	ostmts := []string{"open(a)", "open(b)", "mark()", "close(a)", "close(b)", "other()"}
	for _, sq := range seqs(ostmts, n) {
		if len(sq) < 3 {
			continue
		}
		emit(&SCase{Changes: []*model.Change{openPats[0]}, File: "package p\n\nfunc _() {\n\t" + strings.Join(sq, "\n\t") + "\n}\n", Tag: "F2-leak-two-elisions/stmts"})
	}
	for _, sq := range seqs([]string{"a", "b", "0", "c"}, n+1) {
		if len(sq) < 3 {
			continue
		}
		emit(&SCase{Changes: []*model.Change{openPats[1]}, File: "package p\n\nvar _ = f(" + strings.Join(sq, ", ") + ")\n", Tag: "F2-leak-two-elisions/args"})
	}
	// F4: an identifier metavariable that names an import is bound by the import for the whole file, also when the file
	// imports the path without a name
	impCh := &model.Change{Kind: "expr", Meta: []model.MetaVar{{Name: "fooclient", Kind: "identifier"}},
		Imports: []model.Import{{Tag: " ", Name: "fooclient", Path: "p/client"}}, Lines: model.L("-fooclient.Init()", "+compat.Init()")}
	for _, spec := range []string{`"p/client"`, `fooclient "p/client"`, `cl "p/client"`, `metrics "p/client"`} {
		for _, calls := range seqs([]string{"metrics.Init()", "logging.Init()", "fooclient.Init()", "cl.Init()", "client.Init()"}, 3) {
			if len(calls) == 0 {
				continue
			}
			emit(&SCase{Changes: []*model.Change{impCh}, File: "package p\n\nimport " + spec + "\n\nfunc _() {\n\t" + strings.Join(calls, "\n\t") + "\n}\n", Tag: "F4-import-metavar/" + spec})
		}
	}
	// F4b: two import lines, each naming its import by a metavariable that the body uses: both bindings hold for the
	// whole file, whatever the order of the lines
	for _, order := range [][2]int{{0, 1}, {1, 0}} {
		imps := []model.Import{{Tag: " ", Name: "a", Path: "p/uno"}, {Tag: " ", Name: "b", Path: "p/dos"}}
		ch := &model.Change{Kind: "expr", Meta: []model.MetaVar{{Name: "a", Kind: "identifier"}, {Name: "b", Kind: "identifier"}},
			Imports: []model.Import{imps[order[0]], imps[order[1]]}, Lines: model.L("-a.Get(b.Key)", "+compat.Get(a, b)")}
		for _, specs := range [][2]string{{`uno "p/uno"`, `dos "p/dos"`}, {`"p/uno"`, `"p/dos"`}, {`u "p/uno"`, `dos "p/dos"`}, {`uno "p/uno"`, `d "p/dos"`}} {
			n0, n1 := strings.Fields(specs[0])[0], strings.Fields(specs[1])[0]
			if strings.HasPrefix(n0, `"`) {
				n0 = "a"
			}
			if strings.HasPrefix(n1, `"`) {
				n1 = "b"
			}
			for _, calls := range seqs([]string{n0 + ".Get(" + n1 + ".Key)", "other.Get(" + n1 + ".Key)", n0 + ".Get(other.Key)", n1 + ".Get(" + n0 + ".Key)"}, 2) {
				if len(calls) == 0 {
					continue
				}
				emit(&SCase{Changes: []*model.Change{ch}, File: "package p\n\nimport (\n\t" + specs[0] + "\n\t" + specs[1] + "\n)\n\nfunc _() {\n\t" + strings.Join(calls, "\n\t") + "\n}\n", Tag: "F4-import-metavar-two/" + specs[0] + "," + specs[1]})
			}
		}
	}
	// F3: a name is a metavariable only in the change that declares it
	decl := func(vars ...string) []model.MetaVar { return c02Meta(vars) }
	for _, first := range [][]string{{"x"}, {"n"}, {"x", "n"}} {
		for _, second := range [][]string{{}, {"y"}, {"x"}, {"n"}} {
			for _, name := range []string{"x", "n"} {
				c1 := &model.Change{Kind: "expr", Meta: decl(first...), Lines: model.L("-old1("+first[0]+")", "+new1("+first[0]+")")}
				c2 := &model.Change{Kind: "expr", Meta: decl(second...), Lines: model.L("-old2("+name+")", "+new2("+name+")")}
				for _, order := range [][]*model.Change{{c1, c2}, {c2, c1}} {
					for _, arg := range []string{"x", "n", "z", "1", "a.b"} {
						for _, arg1 := range []string{"x", "k"} {
							file := "package p\n\nfunc _() {\n\told1(" + arg1 + ")\n\told2(" + arg + ")\n\told2(" + name + ")\n}\n"
							emit(&SCase{Changes: order, File: file, Tag: fmt.Sprintf("F3-scope/%v-%v-%s", first, second, name)})
						}
					}
				}
			}
		}
	}
}
