package props

import (
	"fmt"
	"go/parser"
	"go/token"
	"regexp"
	"sort"
	"strings"

	"verifmc/canon"
	"verifmc/core"
	"verifmc/gen"
	"verifmc/model"
)

func init() {
	core.Register(&core.Property{
		ID:    "C01",
		Level: "model_checking",
		Rule: "universe = (a) field sweep: every construct of the catalogue K (one snippet per go/ast node type and populated field) used as a literal pattern and with one leaf replaced by an expression / identifier metavariable x the file containing the construct itself and each reflection-generated single-point deviation of it (every scalar, token, channel direction, meaningful position validity, every slice element dropped/duplicated/swapped, every optional child removed); " +
			"(b) position sweep: representative expression/statement/declaration patterns x every slot of the context catalogue x {instance, near-misses}; (c) multiplicity and nesting: every combination of instance / near-miss / instance-in-instance / instance-in-filler over 2..3 expression holes, and every statement sequence (<=3) over instances, near-misses and instances nested in bare blocks, if/else, case clauses, loops and closures. " +
			"(g) for patterns with an elided condition and spelled-out init/post clauses x all sequences (<=2) of loops differing in a spelled-out clause (no model: the file must stay unchanged); (f) patterns qualified by an import-name metavariable x 4 import spellings x all sequences (<=3) of selections from that and other names; (d) two-change patches in which the second change's instances lie in code the first one generated (empty lists, unwrapped arguments, emptied blocks); (b') patch files without final newline. Oracle: canonical output in the model's Allowed set (no non-instance rewritten; every mandatory site rewritten). non-trivial = the file contains an instance or the case is a near-miss of a pattern (mutant)",
		Assumptions: []string{"a generated pattern that patch.Parse rejects is not a case (counted under not_cases)"},
		Bounds: func(tier string) map[string]any {
			return map[string]any{"constructs": len(gen.Constructs()), "stmt_seq_len": 3}
		},
		NewCase: func() any { return &MCase{} },
		Gen:     c01Gen,
		Setup:   cliSetup,
		Run: func(env *core.Env, ci any) core.Outcome {
			c := ci.(*MCase)
			if c.Then != nil {
				o := judgeSeqBoth(env, &SCase{Changes: []*model.Change{c.Change, c.Then}, File: c.File, Tag: c.Tag}, canon.Options{KeepParens: true})
				if o.Violation != "" {
					o.FindingKey = "C01:" + o.FindingKey + "/d-generated"
				}
				return o
			}
			if c.NoInstance {
				o := judgeNoInstance(env, c)
				if o.Violation != "" {
					o.FindingKey = "C01:" + o.FindingKey + "/" + strings.SplitN(c.Tag, "/", 2)[0]
				}
				return o
			}
			opts := canon.Options{KeepParens: true}
			if strings.HasPrefix(c.Tag, "f-import-metavar/") {
				opts.MaskImports = true // what happens to the matched import is C11's subject
			}
			v := judgeModelBoth(env, c, opts, 1)
			o := v.Out
			if strings.Contains(c.Tag, "/mutant:") {
				o.Nontrivial = true
			}
			if o.Violation != "" {
				fam := strings.SplitN(c.Tag, "/", 2)[0]
				o.FindingKey = "C01:" + o.FindingKey + "/" + fam
				if fam == "a-field" {
					o.FindingKey += "/" + c01Field(c.Tag)
				}
			}
			return o
		},
	})
}

var c01FieldRe = regexp.MustCompile(`([A-Za-z]+\.[A-Za-z]+)(\[\d+\])?:([a-z0-9>A-Z_!=<&|^+*/-]+)$`)

// c01Field extracts "Node.Field:op" from a mutant tag.
func c01Field(tag string) string {
	if m := c01FieldRe.FindStringSubmatch(tag); m != nil {
		return m[1] + ":" + strings.SplitN(m[3], "-", 2)[0]
	}
	if strings.HasSuffix(tag, "/self") {
		return "self"
	}
	return "?"
}

func c01Lines(tag string, src string) []string {
	var out []string
	for _, l := range strings.Split(src, "\n") {
		out = append(out, tag+l)
	}
	return out
}

var parseCache = map[string]bool{}

func parsesAsGo(src string) bool {
	if v, ok := parseCache[src]; ok {
		return v
	}
	_, err := parser.ParseFile(token.NewFileSet(), "a.go", src, parser.SkipObjectResolution)
	parseCache[src] = err == nil
	return err == nil
}

var wordRe = func(w string) *regexp.Regexp { return regexp.MustCompile(`\b` + w + `\b`) }

func c01Gen(tier string, emit func(any)) {
	// (h) the first change renames the package; the instances of the second, which is guarded by the new name, are
	// instances like any other
	ren := &model.Change{Kind: "expr", PkgMinus: "p", PkgPlus: "q", Lines: model.L("-pre()", "+pre()")}
	grd := &model.Change{Kind: "expr", PkgMinus: "q", PkgPlus: "q", Meta: []model.MetaVar{{Name: "x", Kind: "expression"}}, Lines: model.L("-foo(x)", "+mark(x)")}
	for _, pkg := range []string{"p", "q", "r"} {
		for _, body := range []string{"pre()\n\tfoo(1)", "foo(1)", "pre()\n\tfoo(foo(2))\n\tbar(3)"} {
			emit(&MCase{Change: ren, Then: grd, File: "package " + pkg + "\n\nfunc _() {\n\t" + body + "\n}\n", Tag: "h-package-renamed-then-guarded"})
		}
	}
	// (g) for statements whose pattern elides the condition but spells out the init and/or post clause: whatever
	// the elision stands for, a loop that differs in a spelled-out clause, has a clause the pattern leaves empty,
	// or is a range loop is no instance
	type hdr struct{ init, post string }
	loops := map[string]hdr{"for i := 0; i < n; i++ {": {"i := 0", "i++"}, "for ; i < n; i++ {": {"", "i++"}, "for i := 0; i < n; {": {"i := 0", ""}, "for i < n {": {"", ""}, "for {": {"", ""},
		"for ; i > 0; i-- {": {"", "i--"}, "for j := 0; i < n; i++ {": {"j := 0", "i++"}, "for i := range xs {": {"range", "range"}, "for range xs {": {"range", "range"}}
	for _, p := range []hdr{{"", "i++"}, {"i := 0", ""}, {"i := 0", "i++"}} {
		for _, body := range [][]string{{"-  visit(i)", "+  inspect(i)"}, {"-  visit(i)", "+  inspect(i)", "   DOTS_2"}} {
			lines := append([]string{" for " + p.init + "; DOTS_1; " + p.post + " {"}, body...)
			ch := &model.Change{Kind: "stmts", Lines: model.L(append(lines, " }")...)}
			var heads []string
			for h, l := range loops {
				if l != p {
					heads = append(heads, h)
				}
			}
			sort.Strings(heads)
			for _, sq := range seqs(heads, 2) {
				if len(sq) == 0 {
					continue
				}
				var b strings.Builder
				for _, h := range sq {
					b.WriteString("\t" + h + "\n\t\tvisit(i)\n\t}\n")
				}
				emit(&MCase{Change: ch, File: "package p\n\nfunc _() {\n" + b.String() + "}\n", Tag: "g-for-clauses/" + p.init + ";" + p.post, NoInstance: true})
			}
		}
	}
	// (f) patterns qualified by an import-name metavariable: only selections from the name under which the file
	// imports the path are instances (the name the metavariable is spelled like when the import is unnamed)
	for _, body := range [][]string{{"-metrics.Incr(\"requests\")", "+metrics.Add(\"requests\", 1)"}, {"-metrics.Incr(x)", "+metrics.Add(x, 1)"}} {
		ch := &model.Change{Kind: "expr", Meta: []model.MetaVar{{Name: "metrics", Kind: "identifier"}, {Name: "x", Kind: "expression"}},
			Imports: []model.Import{{Tag: " ", Name: "metrics", Path: "x/metrics"}}, Lines: model.L(body...)}
		for _, spec := range []string{`"x/metrics"`, `metrics "x/metrics"`, `m "x/metrics"`, `audit "x/metrics"`} {
			for _, calls := range seqs([]string{`metrics.Incr("requests")`, `audit.Incr("requests")`, `m.Incr("requests")`, `metrics.Incr("other")`, `use(audit.Incr)`}, 3) {
				if len(calls) == 0 {
					continue
				}
				emit(&MCase{Change: ch, File: "package p\n\nimport " + spec + "\n\nfunc _() {\n\t" + strings.Join(calls, "\n\t") + "\n}\n", Tag: "f-import-metavar/" + spec})
			}
		}
	}
	exprCtx := map[string]gen.Ctx{}
	for _, c := range gen.ExprContexts() {
		exprCtx[c.ID] = c
	}
	stmtCtx := map[string]gen.Ctx{}
	for _, c := range gen.StmtContexts() {
		stmtCtx[c.ID] = c
	}
	declCtx := map[string]gen.Ctx{}
	for _, c := range gen.DeclContexts() {
		declCtx[c.ID] = c
	}

	// (a) field sweep
	for _, k := range gen.Constructs() {
		var ctxs []gen.Ctx
		plus := ""
		switch k.Kind {
		case "expr":
			ctxs = []gen.Ctx{exprCtx["call-arg"], exprCtx["var-decl-value"]}
			plus = "mark(0)"
		case "stmts":
			ctxs = []gen.Ctx{stmtCtx["func-body"], stmtCtx["case-clause"]}
			plus = "mark()"
		case "decl":
			ctxs = []gen.Ctx{declCtx["top-level-between"]}
			if strings.HasPrefix(k.Src, "func") {
				plus = "func mark() {}"
			} else {
				ctxs = append(ctxs, declCtx["in-func"])
				plus = "var mark int"
			}
		}
		type variant struct {
			id   string
			meta []model.MetaVar
			src  string
			plus string
		}
		variants := []variant{{"literal", nil, k.Src, plus}}
		if wordRe("a").MatchString(k.Src) {
			p2 := plus
			if k.Kind == "expr" {
				p2 = "mark(x)"
			}
			variants = append(variants, variant{"mv-expr", []model.MetaVar{{Name: "x", Kind: "expression"}}, wordRe("a").ReplaceAllString(k.Src, "x"), p2})
		}
		if wordRe("v").MatchString(k.Src) && tier == "thorough" || wordRe("T").MatchString(k.Src) {
			w := "T"
			if !wordRe("T").MatchString(k.Src) {
				w = "v"
			}
			variants = append(variants, variant{"mv-ident", []model.MetaVar{{Name: "n", Kind: "identifier"}}, wordRe(w).ReplaceAllString(k.Src, "n"), plus})
		}
		// hole sweep: every single sub-expression as expression metavariable, every identifier as identifier metavariable
		for _, h := range gen.MetaHoles(k.Kind, k.Src) {
			if h.Src == h.MvName {
				continue // the pattern would be a bare metavariable
			}
			p2 := plus
			if k.Kind == "expr" && h.MvKind == "expression" {
				p2 = "mark(qx)"
			}
			variants = append(variants, variant{"hole:" + strings.TrimPrefix(h.What, "#0/"), []model.MetaVar{{Name: h.MvName, Kind: h.MvKind}}, h.Src, p2})
		}
		muts := gen.Mutants(k.Kind, k.Src)
		if tier == "thorough" {
			// every slot of the context catalogue instead of two, and second-order deviations (a mutant of a mutant)
			switch k.Kind {
			case "expr":
				ctxs = gen.ExprContexts()
			case "stmts":
				ctxs = gen.StmtContexts()
			case "decl":
				if strings.HasPrefix(k.Src, "func") {
					ctxs = gen.DeclContexts()[:3]
				}
			}
			seen := map[string]bool{k.Src: true}
			for _, m := range muts {
				seen[m.Src] = true
			}
			var second []gen.Mutant
			for _, m := range muts {
				for _, m2 := range gen.Mutants(k.Kind, m.Src) {
					if !seen[m2.Src] {
						seen[m2.Src] = true
						second = append(second, gen.Mutant{What: m.What + "+" + m2.What, Src: m2.Src})
					}
				}
			}
			muts = append(muts, second...)
		}
		for _, va := range variants {
			lines := append(c01Lines("-", va.src), c01Lines("+", va.plus)...)
			ch := &model.Change{Kind: k.Kind, Meta: va.meta, Lines: model.L(lines...)}
			for _, cx := range ctxs {
				if cx.ID == "" {
					panic("harness: missing context")
				}
				if !parsesAsGo(cx.Fill(k.Src)) {
					continue // e.g. a composite literal in the header of an if statement
				}
				emit(&MCase{Change: ch, File: cx.Fill(k.Src), Tag: fmt.Sprintf("a-field/%s/%s/%s/self", k.ID, va.id, cx.ID)})
				for _, m := range muts {
					if tier == "thorough" && !parsesAsGo(cx.Fill(m.Src)) {
						continue
					}
					emit(&MCase{Change: ch, File: cx.Fill(m.Src), Tag: fmt.Sprintf("a-field/%s/%s/%s/mutant:%s", k.ID, va.id, cx.ID, m.What)})
				}
			}
		}
	}

	// (b) position sweep
	xm := []model.MetaVar{{Name: "x", Kind: "expression"}}
	type pat struct {
		ch    *model.Change
		fills []string
		ctxs  []gen.Ctx
	}
	pats := []pat{
		{&model.Change{Kind: "expr", Lines: model.L("-foo(1)", "+mark(1)")}, []string{"foo(1)", "foo(2)", "foo(1, 1)", "foo()", "bar(1)", "foo(one...)"}, gen.ExprContexts()},
		{&model.Change{Kind: "expr", Meta: xm, Lines: model.L("-foo(x)", "+mark(x)")}, []string{"foo(a + b)", "foo(a, b)", "foo(xs...)", "w.foo(a)", "foo(foo(a))"}, gen.ExprContexts()},
		{&model.Change{Kind: "expr", Meta: xm, Lines: model.L("-foo(x, x)", "+mark(x)")}, []string{"foo(a, a)", "foo(a, b)", "foo((a), a)", "foo(g(b...), g(b))", "foo(g(b), g(b...))", "foo(g(b...), g(b...))",
			"foo(func() { type T = int }, func() { type T int })", "foo(func() { var (\n\t\tv int\n\t) }, func() { var v int })", "foo(func(a ...int) {}, func(a int) {})", "foo([]int{}, [...]int{})", "foo(<-ch, ch)", "foo(chan<- int(nil), chan int(nil))"}, gen.ExprContexts()},
		{&model.Change{Kind: "expr", Meta: xm, Lines: model.L("-foo(DOTS_1, x, x)", "+mark(x)")}, []string{"foo(1, 1)", "foo(1, 1, 1)", "foo(a, b, b, b)", "foo(a, b, b)", "foo(b, b, a)", "foo(1, 2, 1, 1)", "foo(1)"}, gen.ExprContexts()[:8]},
		{&model.Change{Kind: "stmts", Meta: xm, Lines: model.L("-use(x)", "-use(x)", "+mark(x)")}, []string{"use(1)\n\tuse(1)", "use(1)\n\tuse(1)\n\tuse(1)", "use(2)\n\tuse(1)\n\tuse(1)", "use(1)\n\tuse(2)\n\tuse(2)\n\tuse(2)"}, gen.StmtContexts()[:6]},
		{&model.Change{Kind: "expr", Meta: xm, Lines: model.L("-x.sel", "+mark(x)")}, []string{"v.sel", "v.sel2", "v.w.sel", "v.sel.w"}, gen.ExprContexts()},
		{&model.Change{Kind: "expr", Meta: xm, Lines: model.L("-x + 1", "+mark(x)")}, []string{"v + 1", "v - 1", "1 + v", "v + 1 + 1", "(v + 1)"}, gen.ExprContexts()},
		{&model.Change{Kind: "stmts", Meta: xm, Lines: model.L("-v = foo(x)", "+v = mark(x)")}, []string{"v = foo(1)", "v := foo(1)", "v = foo(1, 2)", "w = foo(1)", "v, w = foo(1)", "v = foo(1)\n\tv = foo(2)"}, gen.StmtContexts()},
		{&model.Change{Kind: "stmts", Meta: xm, Lines: model.L("-v := foo(x)", " DOTS_1", "-use(v)", "+mark(x)")}, []string{"v := foo(1)\n\tuse(v)", "v := foo(1)\n\tmid()\n\tuse(v)", "v := foo(1)\n\tuse(w)", "use(v)\n\tv := foo(1)", "v := foo(1)"}, gen.StmtContexts()},
		{&model.Change{Kind: "stmts", Lines: model.L("-return foo()", "+return mark()")}, []string{"return foo()", "return foo(), nil", "return", "return (foo())"}, gen.StmtContexts()},
		{&model.Change{Kind: "decl", Meta: xm, Lines: model.L("-var v = foo(x)", "+var v = mark(x)")}, []string{"var v = foo(1)", "var v int = foo(1)", "var v, w = foo(1)", "var (\n\tv = foo(1)\n)", "const v = foo(1)", "var w = foo(1)"}, gen.DeclContexts()},
		{&model.Change{Kind: "decl", Lines: model.L("-type T struct{ a int }", "+type T struct{ mark int }")}, []string{"type T struct{ a int }", "type T = struct{ a int }", "type T struct{ a, b int }", "type T struct{ a int `t` }", "type (\n\tT struct{ a int }\n)", "type T[P any] struct{ a int }"}, gen.DeclContexts()},
		{&model.Change{Kind: "decl", Lines: model.L("-func foo() {", "+func mark() {", " DOTS_1", " }")}, []string{"func foo() {}", "func foo() { a(); b() }", "func foo() int { return 1 }", "func (r T) foo() {}", "func foo(a int) {}", "func foo[T any]() {}", "func foo()"}, gen.DeclContexts()[:2]},
	}
	for pi, p := range pats {
		for _, cx := range p.ctxs {
			for _, f := range p.fills {
				emit(&MCase{Change: p.ch, File: cx.Fill(f), Tag: fmt.Sprintf("b-position/p%d/%s/%s", pi, cx.ID, f)})
			}
		}
	}

	// (b') the same patterns given as a patch file that does not end in a newline; '+' above '-' so that the last line is a '-' line
	for pi, p := range pats {
		var minus, plus []model.Line
		for _, l := range p.ch.Lines {
			switch l.Tag {
			case "-":
				minus = append(minus, l)
			case "+":
				plus = append(plus, l)
			}
		}
		variants := []*model.Change{p.ch}
		if len(minus)+len(plus) == len(p.ch.Lines) && len(minus) > 0 && len(plus) > 0 {
			variants = append(variants, &model.Change{Kind: p.ch.Kind, Meta: p.ch.Meta, Lines: append(append([]model.Line{}, plus...), minus...)})
		}
		for vi, ch := range variants {
			for _, cx := range p.ctxs[:min(len(p.ctxs), 6)] {
				for _, f := range p.fills {
					emit(&MCase{Change: ch, File: cx.Fill(f), NoFinalNL: true, Tag: fmt.Sprintf("b-nonl/p%d.%d/%s/%s", pi, vi, cx.ID, f)})
				}
			}
		}
	}
	// (d) instances among the code an earlier change of the same patch generated (empty lists left by an elision that
	// stood for nothing, unwrapped arguments, emptied literals) are instances like any other
	firsts := []*model.Change{
		{Kind: "expr", Lines: model.L("-fetch(ctx, DOTS_1)", "+fetch(DOTS_1)")},
		{Kind: "expr", Meta: xm, Lines: model.L("-wrap(x)", "+x")},
		{Kind: "expr", Meta: xm, Lines: model.L("-T{a: x, DOTS_1}", "+T{DOTS_1}")},
		{Kind: "expr", Lines: model.L("-h(DOTS_1, last)", "+h(DOTS_1)")},
		{Kind: "stmts", Lines: model.L("-if c {", "-DOTS_1", "-}", "+{", "+DOTS_1", "+}")},
	}
	seconds := []*model.Change{
		{Kind: "expr", Lines: model.L("-fetch()", "+done()")},
		{Kind: "expr", Lines: model.L("-fetch(1)", "+done(1)")},
		{Kind: "expr", Lines: model.L("-T{}", "+zero")},
		{Kind: "expr", Lines: model.L("-T{b: 2}", "+one")},
		{Kind: "expr", Lines: model.L("-h()", "+none()")},
		{Kind: "expr", Meta: xm, Lines: model.L("-h(x)", "+single(x)")},
		{Kind: "stmts", Lines: model.L("-{", "-}", "+empty()")},
	}
	genFiles := []string{"fetch(ctx)", "fetch(ctx, 1)", "fetch()", "fetch(1)", "wrap(fetch())", "wrap(fetch(ctx))", "_ = T{a: 1}", "_ = T{a: 1, b: 2}", "_ = T{}", "_ = T{b: 2}", "h(last)", "h(1, last)", "h()", "h(wrap(last))", "if c {\n\t}", "if c {\n\t\tfetch(ctx)\n\t}", "{\n\t}"}
	for i, c1 := range firsts {
		for j, c2 := range seconds {
			for _, s := range seqs(genFiles, 2) {
				if len(s) == 0 {
					continue
				}
				emit(&MCase{Change: c1, Then: c2, File: "package p\n\nfunc _() {\n\t" + strings.Join(s, "\n\t") + "\n}\n", Tag: fmt.Sprintf("d-generated/%d.%d", i, j)})
			}
		}
	}
	// (e) an inadmissible site must not keep the other sites of the file from being rewritten
	unwrap := &model.Change{Kind: "expr", Meta: xm, Lines: model.L("-trace(x)", "+x")}
	var siteKinds []string
	for _, slot := range []string{"defer %s", "go %s", "use(%s)", "%s"} {
		for _, fl := range []string{"cleanup()", "cleanup", "<-done"} {
			siteKinds = append(siteKinds, fmt.Sprintf(slot, "trace("+fl+")"))
		}
	}
	for _, sq := range seqs(siteKinds, 3) {
		if len(sq) < 2 {
			continue
		}
		emit(&MCase{Change: unwrap, File: "package p\n\nfunc _() {\n\t" + strings.Join(sq, "\n\t") + "\n}\n", Tag: fmt.Sprintf("e-inadmissible-among-sites/%d", len(sq))})
	}
	// (c) multiplicity and nesting — expressions
	ech := &model.Change{Kind: "expr", Meta: xm, Lines: model.L("-foo(x)", "+mark(x)")}
	efill := []string{"foo(1)", "foo(2, 3)", "foo(foo(1))", "g(foo(1))", "bar(1)", "foo(g(foo(2)))"}
	for _, s := range seqs(efill, 3) {
		if len(s) < 2 {
			continue
		}
		var file string
		if len(s) == 2 {
			file = "package p\n\nfunc _() {\n\th(" + s[0] + ", " + s[1] + ")\n}\n"
		} else {
			file = "package p\n\nvar _ = " + s[2] + "\n\nfunc _() {\n\th(" + s[0] + ", " + s[1] + ")\n}\n"
		}
		emit(&MCase{Change: ech, File: file, Tag: "c-multi-expr/" + strings.Join(s, "|")})
	}
	// (c) statements: first instance per block, nested blocks
	sch := &model.Change{Kind: "stmts", Meta: xm, Lines: model.L("-v = foo(x)", "+v = mark(x)")}
	sfill := []string{"v = foo(1)", "v = foo(2)", "w = foo(1)", "{\n\t\tv = foo(1)\n\t}", "if c {\n\t\tv = foo(1)\n\t} else {\n\t\tv = foo(2)\n\t}",
		"switch {\n\tcase c:\n\t\tv = foo(1)\n\t}", "for {\n\t\tv = foo(1)\n\t\tv = foo(2)\n\t}", "go func() {\n\t\tv = foo(3)\n\t}()", "L:\n\t{\n\t\tv = foo(1)\n\t}", "other()"}
	for _, s := range seqs(sfill, 3) {
		if len(s) == 0 {
			continue
		}
		file := "package p\n\nfunc _() {\n\t" + strings.Join(s, "\n\t") + "\n}\n"
		file = strings.Replace(strings.Replace(file, "L:", "L1:", 1), "L:", "L2:", 1) // unique labels
		file = strings.Replace(file, "L:", "L3:", 1)
		emit(&MCase{Change: sch, File: file, Tag: "c-multi-stmt/" + fmt.Sprint(len(s))})
	}
	// two-statement pattern with an elision between, candidates overlapping
	s2 := &model.Change{Kind: "stmts", Meta: xm, Lines: model.L("-lock(x)", " DOTS_1", "-unlock(x)", "+unlockLater(x)")}
	s2fill := []string{"lock(a)", "unlock(a)", "lock(b)", "unlock(b)", "work()", "{\n\t\tlock(a)\n\t\tunlock(a)\n\t}"}
	n := 4
	if tier == "thorough" {
		n = 5
	}
	for _, s := range seqs(s2fill, n) {
		if len(s) < 2 {
			continue
		}
		file := "package p\n\nfunc _() {\n\t" + strings.Join(s, "\n\t") + "\n}\n"
		emit(&MCase{Change: s2, File: file, Tag: "c-multi-stmt2/" + fmt.Sprint(len(s))})
	}
}
