package props

import (
	"os"
	"path/filepath"
	"strings"

	"verifmc/core"
	"verifmc/drive"
)

// sandbox is a fresh directory tree for one CLI case.
type sandbox struct {
	env  *core.Env
	Root string
}

func newSandbox(env *core.Env, name string, tree map[string]string) *sandbox {
	root := filepath.Join(env.Scratch, name)
	if err := drive.FreshDir(root); err != nil {
		panic(err)
	}
	if err := drive.WriteTree(root, tree); err != nil {
		panic(err)
	}
	return &sandbox{env: env, Root: root}
}

func (s *sandbox) path(rel string) string { return filepath.Join(s.Root, rel) }

func (s *sandbox) snap(rel string) drive.Snapshot {
	sn, err := drive.Snap(s.path(rel))
	if err != nil {
		panic(err)
	}
	return sn
}

func (s *sandbox) read(rel string) string {
	b, err := os.ReadFile(s.path(rel))
	if err != nil {
		return "<unreadable: " + err.Error() + ">"
	}
	return string(b)
}

func (s *sandbox) remove() { os.RemoveAll(s.Root) }

// run executes gopatch with cwd = s.Root/cwdRel.
func (s *sandbox) run(real bool, cwdRel string, args []string, stdin string) drive.Result {
	if real {
		return drive.RunReal(filepath.Join(s.env.BinDir, "gopatch.real"), s.path(cwdRel), args, stdin)
	}
	return s.env.Private["cli"].(*drive.Server).Run(s.path(cwdRel), args, stdin)
}

// believeIfReal runs judge through the in-process driver; a violation is
// only believed if the real binary (subprocess) reproduces a violation three
// times in a row.
func believeIfReal(judge func(real bool) core.Outcome) core.Outcome {
	o := judge(false)
	if o.Violation == "" {
		return o
	}
	for i := 0; i < 3; i++ {
		if ro := judge(true); ro.Violation == "" {
			return core.Outcome{Skip: "driver-only disagreement (not reproduced by the real binary): " + o.FindingKey}
		}
	}
	return o
}

func writeFile(path, content string) error { return os.WriteFile(path, []byte(content), 0o644) }

// logLineFor reports whether line is a verbose-log line about path: the wording of the
// log is not part of any property, only which files it mentions and in which order.
func logLineFor(line, path string) bool {
	return strings.Contains(line, path) && !strings.Contains(line, "\n")
}

// cutLogLine removes one leading log line about path from s.
func cutLogLine(s, path string) (rest string, ok bool) {
	i := strings.IndexByte(s, '\n')
	if i < 0 || !logLineFor(s[:i], path) {
		return s, false
	}
	return s[i+1:], true
}
