package props

import (
	"fmt"
	"os"
	"os/exec"
	"path/filepath"
	"strings"

	"verifmc/core"
	"verifmc/drive"
)

// sandbox is a fresh directory tree for one CLI case.
type sandbox struct {
	env      *core.Env
	Root     string
	noShadow bool // the tree holds something a copy cannot reproduce (a fed named pipe)
}

func newSandbox(env *core.Env, name string, tree map[string]string) *sandbox {
	root := filepath.Join(env.Scratch, name)
	if err := drive.FreshDir(root); err != nil {
		panic(err)
	}
	if err := drive.WriteTree(root, tree); err != nil {
		panic(err)
	}
	return &sandbox{env: env, Root: root}
}

func (s *sandbox) path(rel string) string { return filepath.Join(s.Root, rel) }

func (s *sandbox) snap(rel string) drive.Snapshot {
	sn, err := drive.Snap(s.path(rel))
	if err != nil {
		panic(err)
	}
	return sn
}

func (s *sandbox) read(rel string) string {
	b, err := os.ReadFile(s.path(rel))
	if err != nil {
		return "<unreadable: " + err.Error() + ">"
	}
	return string(b)
}

func (s *sandbox) remove() { os.RemoveAll(s.Root) }

// shadowEvery: one in-process run in shadowEvery is repeated by the real binary on a copy of the scratch tree, and the
// two must agree (exit status, stdout, stderr, resulting tree). The in-process driver calls mainCmd.Run and reproduces
// what runMain does around it; only the real binary goes through runMain itself.
const shadowEvery = 61

// run executes gopatch with cwd = s.Root/cwdRel.
func (s *sandbox) run(real bool, cwdRel string, args []string, stdin string) drive.Result {
	if real {
		return drive.RunReal(filepath.Join(s.env.BinDir, "gopatch.real"), s.path(cwdRel), args, stdin)
	}
	n, _ := s.env.Private["cli-calls"].(int)
	s.env.Private["cli-calls"] = n + 1
	shadow := ""
	if n%shadowEvery == shadowEvery-1 && !s.noShadow {
		shadow = s.Root + ".real"
		os.RemoveAll(shadow)
		if err := exec.Command("cp", "-a", s.Root, shadow).Run(); err != nil {
			shadow = ""
		}
	}
	// the same run once more in process on a second copy: a run is a function of its inputs (no dependence on map
	// iteration order or on what the process did before)
	again := ""
	if shadow != "" {
		again = s.Root + ".again"
		os.RemoveAll(again)
		if err := exec.Command("cp", "-a", s.Root, again).Run(); err != nil {
			again = ""
		}
	}
	r := s.env.Private["cli"].(*drive.Server).Run(s.path(cwdRel), args, stdin)
	compare := func(copyRoot, who string, run func(cwd string, args []string) drive.Result) {
		defer os.RemoveAll(copyRoot)
		rargs := make([]string, len(args))
		for i, a := range args {
			rargs[i] = strings.ReplaceAll(a, s.Root, copyRoot)
		}
		rr := run(filepath.Join(copyRoot, cwdRel), rargs)
		norm := func(x string) string { return strings.ReplaceAll(x, copyRoot, s.Root) }
		var diff string
		switch {
		case r.Panic != "" || rr.Panic != "":
			// crashes are judged by the caller
		case rr.Exit != r.Exit:
			diff = fmt.Sprintf("exit status %d (%s) vs %d (mainCmd.Run in process)", rr.Exit, who, r.Exit)
		case norm(rr.Stdout) != r.Stdout:
			diff = fmt.Sprintf("stdout %q (%s) vs %q", norm(rr.Stdout), who, r.Stdout)
		case norm(rr.Stderr) != r.Stderr:
			diff = fmt.Sprintf("stderr %q (%s) vs %q", norm(rr.Stderr), who, r.Stderr)
		default:
			a, err1 := drive.Snap(s.Root)
			b, err2 := drive.Snap(copyRoot)
			if err1 == nil && err2 == nil {
				if d := a.Diff(b, true); d != "" {
					diff = "resulting trees differ (" + who + "):\n" + d
				}
			}
		}
		if diff != "" {
			prev, _ := s.env.Private["divergence"].(string)
			s.env.Private["divergence"] = prev + fmt.Sprintf("gopatch %s: %s\n", strings.Join(args, " "), diff)
		}
	}
	if shadow != "" {
		compare(shadow, "real binary", func(cwd string, a []string) drive.Result {
			return drive.RunReal(filepath.Join(s.env.BinDir, "gopatch.real"), cwd, a, stdin)
		})
	}
	if again != "" {
		compare(again, "second run in process", func(cwd string, a []string) drive.Result {
			return s.env.Private["cli"].(*drive.Server).Run(cwd, a, stdin)
		})
	}
	return r
}

// believeIfReal runs judge through the in-process driver; a violation is
// only believed if the real binary (subprocess) reproduces a violation three
// times in a row.
func believeIfReal(judge func(real bool) core.Outcome) core.Outcome {
	o := judge(false)
	if o.Violation == "" {
		return o
	}
	for i := 0; i < 3; i++ {
		if ro := judge(true); ro.Violation == "" {
			return core.Outcome{Skip: "driver-only disagreement (not reproduced by the real binary): " + o.FindingKey}
		}
	}
	return o
}

func writeFile(path, content string) error { return os.WriteFile(path, []byte(content), 0o644) }

// logLineFor reports whether line is a verbose-log line about path: the wording of the
// log is not part of any property, only which files it mentions and in which order.
func logLineFor(line, path string) bool {
	return strings.Contains(line, path) && !strings.Contains(line, "\n")
}

// cutLogLine removes one leading log line about path from s.
func cutLogLine(s, path string) (rest string, ok bool) {
	i := strings.IndexByte(s, '\n')
	if i < 0 || !logLineFor(s[:i], path) {
		return s, false
	}
	return s[i+1:], true
}
