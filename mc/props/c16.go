package props

import (
	"bytes"
	"context"
	"fmt"
	"os"
	"os/exec"
	"path/filepath"
	"regexp"
	"sort"
	"strconv"
	"strings"
	"time"

	"verifmc/core"
	"verifmc/drive"
)

// C16Case: one scenario (files in one run) and one family of faults; the
// case enumerates every fault point of that family itself.
type C16Case struct {
	Family   string   `json:"family"` // fsize | kill | errno | logical
	Kinds    []string `json:"kinds"`  // file kinds in path order
	Syscall  string   `json:"syscall,omitempty"`
	Errno    string   `json:"errno,omitempty"`
	Logical  string   `json:"logical,omitempty"`
	Position int      `json:"position,omitempty"`
}

func init() {
	core.Register(&core.Property{
		ID:    "C16",
		Level: "fault_enumeration",
		Rule: "universe = runs of the real binary over 1..3 target files (kinds: two matching, non-matching, unparseable; every kind at every position) with one fault per execution, injected at the system-call boundary: (a) RLIMIT_FSIZE = n for every n from 0 to the size of the largest output (every length at which a write can be cut); (b) SIGKILL delivered on entry of the k-th call, for every k, of each of openat, read, write, close, renameat/renameat2/rename, unlinkat, fchmod/fchmodat/chmod, ftruncate, fsync, newfstatat (strace inject, per call type until k exceeds the number of calls); (b') after every killed execution a fault-free run with a second, shorter patch: the result must be that patch applied to what the killed run left (no leftovers of temporaries); (c) the same calls failing with ENOSPC, EIO, EACCES, EROFS; (c') pairs of faults: each of those calls failing with ENOSPC at every k while RLIMIT_FSIZE cuts every write at 0, 1, half and all-but-one byte of the largest output (state invariant only); (d') 255, 256, 257 and 512 failing files in one run; (d) logical failures (unparseable source, an unparseable file under a patch whose every change names an import, rewrite error, unparseable result, missing path, missing / unreadable-as-directory / malformed patch, missing patches-file) at every position. " +
			"Oracle: after every execution every .go file equals its original or its complete patched bytes from a fault-free reference run; exit 0 implies every file is in its fault-free final state; a failed action on a path of the run implies non-zero exit and a diagnostic naming a path and the OS cause; per-file logical failures leave the other files' results unchanged. The strace logs are read back: every filesystem action of the reference run on the scratch tree must have been the fault point of at least one execution. non-trivial = an execution in which the fault hit an action on the scratch tree",
		Assumptions: []string{
			"faults are injected with strace 6.1 (inject=...:signal=SIGKILL / :error=E:when=k) and prlimit; GOMAXPROCS=1 keeps the per-thread call numbering stable; coverage is verified from the logs rather than assumed",
			"a stray temporary file whose name does not end in .go is permitted by the property",
			"when the process is killed or hits SIGXFSZ no diagnostic is demanded, only the state invariant",
		},
		Bounds: func(tier string) map[string]any {
			return map[string]any{"scenarios": len(c16Scenarios(tier)), "errnos": c16Errnos(tier)}
		},
		NewCase:     func() any { return &C16Case{} },
		Gen:         c16Gen,
		Run:         c16Run,
		HangSeconds: 600,
	})
}

var c16Kinds = map[string]string{
	"m":  "package p\n\nfunc f() {\n\tfoo(1)\n}\n",
	"m2": "package p\n\nimport \"os\"\n\nfunc g() {\n\tfoo(os.Args, 2)\n}\n",
	"n":  "package p\n\nfunc n() { other(3) }\n",
	"u":  "package p\n\nfunc broken( {\n",
}

const c16Patch = "@@\nvar x expression\n@@\n-foo(x)\n+barbarbar(x, x)\n"

func c16Scenarios(tier string) [][]string {
	// a kind ending in "+hl" has a second hard link outside the processed tree
	s := [][]string{{"m"}, {"m", "m2"}, {"m", "n", "m2"}, {"u", "m"}, {"m", "u", "m2"}, {"m+hl"}, {"m", "m2+hl"}, {"m+own"}, {"m2+own", "m"}}
	if tier == "thorough" {
		s = append(s, []string{"m2"}, []string{"n", "m"}, []string{"m", "m2", "m"}, []string{"m", "m", "u"}, []string{"u", "u", "m"})
	}
	return s
}

func c16Errnos(tier string) []string {
	if tier == "thorough" {
		return []string{"ENOSPC", "EIO", "EACCES", "EROFS"}
	}
	return []string{"ENOSPC", "EACCES"}
}

var c16Syscalls = []string{"openat", "read", "write", "close", "renameat", "renameat2", "rename", "unlinkat", "unlink", "fchmod", "fchmodat", "chmod", "ftruncate", "fsync", "newfstatat", "linkat", "mkdirat"}

func c16Gen(tier string, emit func(any)) {
	for _, sc := range c16Scenarios(tier) {
		emit(&C16Case{Family: "fsize", Kinds: sc})
		for _, s := range c16Syscalls {
			emit(&C16Case{Family: "kill", Kinds: sc, Syscall: s})
			for _, e := range c16Errnos(tier) {
				emit(&C16Case{Family: "errno", Kinds: sc, Syscall: s, Errno: e})
			}
		}
	}
	// pairs of faults: a call failing (so that an error path or fallback is taken) while every write is
	// cut at n bytes; only the state invariant is demanded
	pairScen := [][]string{{"m"}, {"m", "m2"}}
	if tier == "thorough" {
		pairScen = c16Scenarios(tier)
	}
	for _, sc := range pairScen {
		for _, s := range c16Syscalls {
			emit(&C16Case{Family: "errno+fsize", Kinds: sc, Syscall: s, Errno: "ENOSPC"})
			if tier == "thorough" {
				emit(&C16Case{Family: "errno+fsize", Kinds: sc, Syscall: s, Errno: "EACCES"})
			}
		}
	}
	// a file that cannot be read after a file that does not parse (the run is made by an unprivileged user)
	emit(&C16Case{Family: "unreadable-after-unparseable"})
	// ... and after a file on which the engine fails as well; the same two failures before the write of an
	// unmatched file to a full standard output under --print-only: a run that gives up reports what it recorded
	emit(&C16Case{Family: "unreadable-after-unparseable", Position: 1})
	emit(&C16Case{Family: "unreadable-after-unparseable", Position: 2})
	// the number of failing files does not matter (an exit status is one byte)
	for _, n := range []int{255, 256, 257, 512} {
		emit(&C16Case{Family: "many-failures", Position: n})
	}
	for _, l := range []string{"unparseable-source", "rewrite-error", "unparseable-result", "missing-path", "missing-path-abs", "missing-path-abs-slash", "missing-path-abs-dots", "missing-path-abs-dotdot", "missing-dir-rel-dots", "missing-patch", "patch-is-directory", "malformed-patch", "missing-patches-file", "patches-file-names-missing-patch", "patches-file-unterminated-names-missing-patch", "patches-file-unterminated-names-malformed-patch", "name-too-long-for-temporary", "printer-panic", "engine-panic-after-applied-change", "unparseable-source-under-import-guard", "unparseable-source-after-line-directive", "patches-file-is-directory", "patches-file-first-line-too-long", "patches-file-later-line-too-long",
		"rewrite-error-import-first", "rewrite-error-import-middle", "rewrite-error-import-last",
		"broken-change:unknown-type", "broken-change:missing-type", "broken-change:duplicate-metavariable", "broken-change:body-not-go",
		"broken-change:two-declarations", "broken-change:two-declarations-after-import", "broken-change:two-declarations-after-two-imports",
		"broken-change:two-declarations-after-import-group-of-2", "broken-change:three-declarations-after-import-group-of-3", "broken-change:two-declarations-after-import-group-of-3",
		"broken-change:two-statements-lists-sides-differ"} {
		for n := 1; n <= 3; n++ {
			for pos := 0; pos < n; pos++ {
				emit(&C16Case{Family: "logical", Logical: l, Kinds: make([]string, n), Position: pos})
			}
		}
	}
}

type c16Run_ struct {
	exit   int
	killed bool
	stderr string
	log    string
	files  map[string]string // name -> content after the run
	extra  []string          // entries of the tree that were not there before
}

// c16Exec runs gopatch.real in root/t, optionally under strace / prlimit.
func c16Exec(env *core.Env, root string, names []string, wrapper []string, traceLog string, args []string) c16Run_ {
	bin := filepath.Join(env.BinDir, "gopatch.real")
	full := append(append([]string{}, wrapper...), bin)
	full = append(full, args...)
	ctx, cancel := context.WithTimeout(context.Background(), 60*time.Second)
	defer cancel()
	cmd := exec.CommandContext(ctx, full[0], full[1:]...)
	cmd.Dir = filepath.Join(root, "t")
	cmd.Env = append(os.Environ(), "GOMAXPROCS=1")
	var so, se bytes.Buffer
	cmd.Stdout, cmd.Stderr = &so, &se
	err := cmd.Run()
	r := c16Run_{stderr: se.String(), files: map[string]string{}}
	if err != nil {
		if ee, ok := err.(*exec.ExitError); ok {
			r.exit = ee.ExitCode()
			if r.exit < 0 || r.exit == 137 || strings.Contains(se.String(), "SIGXFSZ") || strings.Contains(se.String(), "fatal error") {
				r.killed = true
			}
		} else {
			panic("harness: cannot run " + strings.Join(full, " ") + ": " + err.Error())
		}
	}
	if traceLog != "" {
		b, _ := os.ReadFile(traceLog)
		r.log = string(b)
		if strings.Contains(r.log, "killed by SIGKILL") {
			r.killed = true
		}
	}
	for _, n := range names {
		b, err := os.ReadFile(filepath.Join(root, "t", n))
		if err != nil {
			r.files[n] = "<missing: " + err.Error() + ">"
		} else {
			r.files[n] = string(b)
		}
	}
	ents, _ := os.ReadDir(filepath.Join(root, "t"))
	for _, e := range ents {
		if !contains(names, e.Name()) {
			r.extra = append(r.extra, e.Name())
		}
	}
	return r
}

func c16Setup(env *core.Env, kinds []string) (root string, names []string, orig map[string]string) {
	root = filepath.Join(env.Scratch, "c16")
	tree := map[string]string{"p.patch": c16Patch}
	orig = map[string]string{}
	var linked []string
	var owned []string
	for i, k := range kinds {
		base := strings.TrimSuffix(strings.TrimSuffix(k, "+hl"), "+own")
		n := fmt.Sprintf("f%d%s.go", i, base)
		names = append(names, n)
		orig[n] = c16Kinds[base]
		tree["t/"+n] = c16Kinds[base]
		if strings.HasSuffix(k, "+hl") {
			linked = append(linked, n)
		}
		if strings.HasSuffix(k, "+own") { // owned by another user, in a directory without write bits (checks run as root)
			owned = append(owned, n)
		}
	}
	if err := drive.FreshDir(root); err != nil {
		panic(err)
	}
	if err := drive.WriteTree(root, tree); err != nil {
		panic(err)
	}
	c16Owned = owned
	c16Disown(root)
	os.MkdirAll(filepath.Join(root, "links"), 0o755)
	for _, n := range linked {
		if err := os.Link(filepath.Join(root, "t", n), filepath.Join(root, "links", n+".lnk")); err != nil {
			panic(err)
		}
	}
	return
}

const c16Patch2 = "@@\nvar x expression\n@@\n-foo(x)\n+b(x)\n"

// c16Patch2Results: what the second patch makes of each original file (fault-free, in a scratch copy).
func c16Patch2Results(env *core.Env, root string, names []string, orig map[string]string) map[string]string {
	dir := filepath.Join(root, "ref2")
	os.MkdirAll(filepath.Join(dir, "t"), 0o755)
	defer os.RemoveAll(dir)
	for n, s := range orig {
		os.WriteFile(filepath.Join(dir, "t", n), []byte(s), 0o644)
	}
	os.WriteFile(filepath.Join(root, "p2.patch"), []byte(c16Patch2), 0o644)
	r := c16Exec(env, dir, names, nil, "", append([]string{"-p", filepath.Join(root, "p2.patch")}, names...))
	if r.killed {
		panic("harness: reference run of the second patch died: " + r.stderr)
	}
	return r.files
}

// c16Owned: files of the current scenario that belong to another user (their directory has no write bits).
var c16Owned []string

func c16Disown(root string) {
	for _, n := range c16Owned {
		if os.Geteuid() == 0 {
			_ = os.Chown(filepath.Join(root, "t", n), 65534, 65534)
		}
	}
	if len(c16Owned) > 0 {
		_ = os.Chmod(filepath.Join(root, "t"), 0o555)
	}
}

func c16Reset(root string, orig map[string]string) {
	defer c16Disown(root)
	os.Chmod(filepath.Join(root, "t"), 0o755)
	os.RemoveAll(filepath.Join(root, "t"))
	os.MkdirAll(filepath.Join(root, "t"), 0o755)
	for n, s := range orig {
		os.WriteFile(filepath.Join(root, "t", n), []byte(s), 0o644)
	}
	// restore the second hard links
	ents, _ := os.ReadDir(filepath.Join(root, "links"))
	for _, e := range ents {
		l := filepath.Join(root, "links", e.Name())
		os.Remove(l)
		os.Link(filepath.Join(root, "t", strings.TrimSuffix(e.Name(), ".lnk")), l)
	}
}

var tmpNameRe = regexp.MustCompile(`\.gopatch-\d+\.tmp`)

var (
	straceCallRe = regexp.MustCompile(`^(\d+)\s+(\w+)\((.*)$`)
	pathArgRe    = regexp.MustCompile(`"((?:[^"\\]|\\.)*)"`)
)

// scratchActions lists, from a strace log, the calls that touch the scratch
// tree (by path argument, or by a file descriptor opened on such a path), as
// "syscall path#occurrence".
func scratchActions(log, root string, injectedOnly bool) []string {
	ids, _ := scratchActionsLines(log, root, injectedOnly)
	return ids
}

// scratchActionsLines also returns, for each action, the index of the log line it was found on.
func scratchActionsLines(log, root string, injectedOnly bool) ([]string, []int) {
	fdPath := map[string]string{} // fd -> path
	occ := map[string]int{}
	var out []string
	var lines []int
	pending := map[string]string{} // pid -> unfinished line
	for li, ln := range strings.Split(log, "\n") {
		m := straceCallRe.FindStringSubmatch(ln)
		if m == nil {
			// "<... openat resumed>) = 5"
			if i := strings.Index(ln, "<... "); i >= 0 {
				pid := strings.Fields(ln)[0]
				if p, ok := pending[pid]; ok {
					ln = p + " " + ln[i:]
					delete(pending, pid)
					m = straceCallRe.FindStringSubmatch(ln)
				}
			}
			if m == nil {
				continue
			}
		}
		pid, name, rest := m[1], m[2], m[3]
		if strings.Contains(rest, "<unfinished ...>") && !strings.Contains(rest, "resumed>") {
			pending[pid] = strings.Replace(ln, " <unfinished ...>", "", 1)
			// an unfinished call is still an action (the process may be killed in it)
		}
		path := ""
		if pm := pathArgRe.FindAllStringSubmatch(rest, -1); pm != nil {
			for _, g := range pm {
				if strings.HasPrefix(g[1], root) {
					path = g[1]
					break
				}
			}
		}
		if path == "" {
			// first argument may be a descriptor
			arg0 := leadingDigits(rest)
			if p, ok := fdPath["fd"+arg0]; ok {
				path = p
			}
		}
		if name == "openat" || name == "open" {
			if i := strings.LastIndex(rest, "= "); i >= 0 && path != "" {
				fd := strings.Fields(rest[i+2:])
				if len(fd) > 0 {
					if _, err := strconv.Atoi(fd[0]); err == nil {
						fdPath["fd"+fd[0]] = path
					}
				}
			}
		}
		if path == "" {
			continue
		}
		if name == "close" {
			delete(fdPath, "fd"+leadingDigits(rest))
		}
		key := name + " " + tmpNameRe.ReplaceAllString(strings.TrimPrefix(path, root), ".gopatch-N.tmp")
		occ[key]++
		id := fmt.Sprintf("%s#%d", key, occ[key])
		if injectedOnly && !strings.Contains(ln, "(INJECTED)") {
			continue
		}
		out = append(out, id)
		lines = append(lines, li)
	}
	return out, lines
}

func leadingDigits(s string) string {
	i := 0
	for i < len(s) && s[i] >= '0' && s[i] <= '9' {
		i++
	}
	return s[:i]
}

// lastCallLine is the index of the last log line that starts or resumes a system call.
func lastCallLine(log string) int {
	last := -1
	for li, ln := range strings.Split(log, "\n") {
		if straceCallRe.MatchString(ln) || strings.Contains(ln, "<... ") {
			last = li
		}
	}
	return last
}

func c16Run(env *core.Env, ci any) core.Outcome {
	c := ci.(*C16Case)
	if c.Family == "logical" {
		return c16Logical(env, c)
	}
	if c.Family == "unreadable-after-unparseable" {
		o := core.Outcome{Class: c.Family, Nontrivial: true, Transitions: 1}
		if os.Geteuid() != 0 {
			return core.Outcome{Skip: "needs root to become an unprivileged user"}
		}
		root := filepath.Join(env.Scratch, "c16u")
		patchText := c16Patch
		tree := map[string]string{"t/a_bad.go": "package p\n\nfunc broken( {\n", "t/b_unreadable.go": "package p\n\nfunc u() {\n\tfoo(1)\n}\n", "t/c_ok.go": "package p\n\nfunc g() {\n\tfoo(2)\n}\n"}
		files := []string{"a_bad.go", "b_unreadable.go", "c_ok.go"}
		want := []string{"a_bad.go", "b_unreadable.go", "permission denied"}
		what := "a file that does not parse, then a file that cannot be read"
		wrapper := []string{"setpriv", "--reuid=65534", "--regid=65534", "--clear-groups"}
		var flags []string
		if c.Position >= 1 {
			// the engine fails on the first file: '+' uses a metavariable that '-' does not bind
			patchText = "@@\nvar x, y expression\n@@\n-baz(x)\n+qux(x, y)\n\n" + c16Patch
			tree["t/a_a_engine.go"] = "package p\n\nfunc r() {\n\tbaz(1)\n\tfoo(2)\n}\n"
			files = append([]string{"a_a_engine.go"}, files...)
			want = append(want, "a_a_engine.go")
			what = "a file on which the engine fails, then " + what
		}
		if c.Position == 2 {
			tree["t/b_unreadable.go"] = "package p\n\nfunc u() {\n\tnothingToDo(1)\n}\n" // readable, unmatched: echoed
			want = []string{"a_c_engine.go", "a_bad.go", "no space left on device"}
			what = "a file that does not parse, then a file on which the engine fails and which is echoed to a full standard output (--print-only)"
			// (the file on which the engine fails counts as unmatched and is echoed too: it comes second)
			tree["t/a_c_engine.go"] = tree["t/a_a_engine.go"]
			delete(tree, "t/a_a_engine.go")
			files = []string{"a_bad.go", "a_c_engine.go", "b_unreadable.go", "c_ok.go"}
			wrapper = append(wrapper, "sh", "-c", `exec "$0" "$@" >/dev/full`)
			flags = []string{"--print-only"}
		}
		tree["p.patch"] = patchText
		if err := drive.FreshDir(root); err != nil {
			panic(err)
		}
		defer os.RemoveAll(root)
		if err := drive.WriteTree(root, tree); err != nil {
			panic(err)
		}
		os.Chmod(env.Scratch, 0o755)
		os.Chmod(root, 0o755)
		for _, n := range append([]string{"t", "p.patch"}, files...) {
			if strings.HasSuffix(n, ".go") {
				n = "t/" + n
			}
			os.Chown(filepath.Join(root, n), 65534, 65534)
		}
		if c.Position != 2 {
			os.Chmod(filepath.Join(root, "t", "b_unreadable.go"), 0)
		}
		r := c16Exec(env, root, nil, wrapper, "", append(append(flags, "-p", filepath.Join(root, "p.patch")), files...))
		missing := ""
		for _, w := range want {
			if !strings.Contains(r.stderr, w) {
				missing += " " + w
			}
		}
		if r.killed || r.exit == 0 || missing != "" {
			o.FindingKey = fmt.Sprintf("C16:diagnostic-incomplete/unreadable-after-unparseable/%d", c.Position)
			o.Violation = fmt.Sprintf("[%s] exit status %d; stderr must name every file that failed and the causes, missing:%s: %q", what, r.exit, missing, r.stderr)
		}
		return o
	}
	if c.Family == "many-failures" {
		// Position files that do not parse (and one that does): the run fails, whatever their number
		n := c.Position
		o := core.Outcome{Class: "many-failures", Nontrivial: true, Transitions: 1}
		root := filepath.Join(env.Scratch, "c16m")
		tree := map[string]string{"p.patch": c16Patch, "t/good.go": "package p\n\nfunc g() {\n\tfoo(1)\n}\n"}
		for i := 0; i < n; i++ {
			tree[fmt.Sprintf("t/bad%03d.go", i)] = "package p\n\nfunc broken( {\n"
		}
		if err := drive.FreshDir(root); err != nil {
			panic(err)
		}
		defer os.RemoveAll(root)
		if err := drive.WriteTree(root, tree); err != nil {
			panic(err)
		}
		r := c16Exec(env, root, []string{"good.go"}, nil, "", []string{"-p", filepath.Join(root, "p.patch"), "."})
		if r.killed || r.exit == 0 || !strings.Contains(r.stderr, fmt.Sprintf("bad%03d.go", n-1)) {
			o.FindingKey = "C16:failure-not-reported/many-failures"
			o.Violation = fmt.Sprintf("[%d unparseable files in one run] exit status %d (killed %v); the last of them named on stderr: %v", n, r.exit, r.killed, strings.Contains(r.stderr, fmt.Sprintf("bad%03d.go", n-1)))
		}
		return o
	}
	root, names, orig := c16Setup(env, c.Kinds)
	defer os.RemoveAll(root)
	args := append([]string{"-p", filepath.Join(root, "p.patch")}, names...)
	o := core.Outcome{Class: c.Family}
	bad := func(key, format string, a ...any) core.Outcome {
		o.Violation = fmt.Sprintf("[%s %s %s, files %v] ", c.Family, c.Syscall, c.Errno, c.Kinds) + fmt.Sprintf(format, a...)
		o.FindingKey = "C16:" + key
		return o
	}
	// fault-free reference run (traced)
	refLog := filepath.Join(root, "ref.log")
	traceSet := strings.Join(c16Syscalls, ",")
	ref := c16Exec(env, root, names, []string{"strace", "-f", "-qq", "-o", refLog, "-e", "trace=" + traceSet}, refLog, args)
	if ref.killed {
		panic("harness: reference run died: " + ref.stderr)
	}
	final := ref.files
	refActions := scratchActions(ref.log, root, false)
	hasUnparsable := contains(c.Kinds, "u")
	for _, k := range c.Kinds {
		if b := strings.TrimSuffix(strings.TrimSuffix(k, "+hl"), "+own"); c16Kinds[b] == "" {
			panic("harness: unknown kind " + k)
		}
	}
	if (ref.exit != 0) != hasUnparsable {
		panic(fmt.Sprintf("harness: unexpected reference exit %d: %s", ref.exit, ref.stderr))
	}
	check := func(r c16Run_, what string) *core.Outcome {
		for _, n := range names {
			if r.files[n] != orig[n] && r.files[n] != final[n] {
				key := "half-written-file"
				if strings.HasPrefix(final[n], r.files[n]) {
					key = "truncated-file"
				}
				v := bad(key, "%s: %s holds neither its original nor its complete patched bytes: %q (original %d bytes, patched %d bytes)\nstderr: %s", what, n, r.files[n], len(orig[n]), len(final[n]), firstN(r.stderr, 300))
				return &v
			}
		}
		for _, e := range r.extra {
			if strings.HasSuffix(e, ".go") {
				v := bad("stray-go-file", "%s: a new .go file was left behind: %s", what, e)
				return &v
			}
		}
		if !r.killed && r.exit == 0 && !hasUnparsable {
			for _, n := range names {
				if r.files[n] != final[n] {
					v := bad("success-but-not-patched", "%s: exit status 0 but %s is not in its final state", what, n)
					return &v
				}
			}
		}
		return nil
	}
	execs := 0
	hits := 0
	var ref2 map[string]string
	switch c.Family {
	case "fsize":
		max := 0
		for _, n := range names {
			if len(final[n]) > max {
				max = len(final[n])
			}
		}
		for n := 0; n <= max+1; n++ {
			c16Reset(root, orig)
			r := c16Exec(env, root, names, []string{"prlimit", fmt.Sprintf("--fsize=%d:%d", n, n), "--"}, "", args)
			execs++
			if n <= max {
				hits++
			}
			if v := check(r, fmt.Sprintf("RLIMIT_FSIZE=%d", n)); v != nil {
				return *v
			}
		}
	case "errno+fsize":
		max := 0
		for _, n := range names {
			if len(final[n]) > max {
				max = len(final[n])
			}
		}
		limits := []int{0, 1, max / 2, max - 1}
		for _, lim := range limits {
			idle := 0
			for k := 1; k <= 400; k++ {
				c16Reset(root, orig)
				log := filepath.Join(root, "inj.log")
				os.Remove(log)
				// strace is the outer process (its log must not be subject to the limit); prlimit's own calls
				// before the exec are counted by when=k as well, which only shifts k
				inj := fmt.Sprintf("inject=%s:error=%s:when=%d", c.Syscall, c.Errno, k)
				r := c16Exec(env, root, names, []string{"strace", "-f", "-qq", "-o", log, "-e", "trace=" + traceSet, "-e", inj, "prlimit", fmt.Sprintf("--fsize=%d:%d", lim, lim), "--"}, log, args)
				execs++
				if len(scratchActions(r.log, root, true)) > 0 {
					hits++
				}
				if v := check(r, fmt.Sprintf("%s on the %d-th %s of a thread with RLIMIT_FSIZE=%d", c.Errno, k, c.Syscall, lim)); v != nil {
					return *v
				}
				if !strings.Contains(r.log, "(INJECTED)") {
					idle++
					if idle >= 2 {
						break
					}
				} else {
					idle = 0
				}
			}
		}
	case "kill", "errno":
		covered := map[string]bool{}
		// The kernel counts the calls per thread and the Go runtime may move the work to another
		// thread, so one sweep over k can miss an action: sweep again (at most 10 times) until every
		// action of the reference run with this call has been a fault point.
		for sweep := 0; sweep < 10; sweep++ {
			if sweep > 0 {
				done := true
				for _, a := range refActions {
					if strings.HasPrefix(a, c.Syscall+" ") && !covered[a] {
						done = false
					}
				}
				if done {
					break
				}
			}
			idle := 0
			for k := 1; k <= 400; k++ {
				c16Reset(root, orig)
				log := filepath.Join(root, "inj.log")
				os.Remove(log)
				inj := fmt.Sprintf("inject=%s:signal=SIGKILL:when=%d", c.Syscall, k)
				if c.Family == "errno" {
					inj = fmt.Sprintf("inject=%s:error=%s:when=%d", c.Syscall, c.Errno, k)
				}
				r := c16Exec(env, root, names, []string{"strace", "-f", "-qq", "-o", log, "-e", "trace=" + traceSet, "-e", inj}, log, args)
				execs++
				what := fmt.Sprintf("%s on the %d-th %s of a thread", map[bool]string{true: "SIGKILL", false: c.Errno}[c.Family == "kill"], k, c.Syscall)
				injected := strings.Contains(r.log, "(INJECTED)") || r.killed
				var hit []string
				if c.Family == "errno" {
					hit = scratchActions(r.log, root, true)
				} else if r.killed {
					// the action in which the process died: the last scratch action of the log
					all, at := scratchActionsLines(r.log, root, false)
					if len(all) > 0 && at[len(at)-1] == lastCallLine(r.log) {
						hit = all[len(all)-1:]
					}
				}
				for _, h := range hit {
					covered[h] = true
				}
				if os.Getenv("C16_DEBUG") != "" {
					fmt.Fprintf(os.Stderr, "k=%d injected=%v killed=%v exit=%d hit=%v\n", k, injected, r.killed, r.exit, hit)
				}
				if len(hit) > 0 {
					hits++
				}
				if v := check(r, what); v != nil {
					return *v
				}
				// history: a run that was killed, followed by a fault-free run with another patch whose output
				// is shorter — whatever the killed run left behind (temporaries) must not leak into the result
				if c.Family == "kill" && r.killed {
					if ref2 == nil {
						ref2 = c16Patch2Results(env, root, names, orig)
					}
					state := r.files
					r2 := c16Exec(env, root, names, nil, "", append([]string{"-p", filepath.Join(root, "p2.patch")}, names...))
					execs++
					for _, n := range names {
						want := state[n] // already patched by the killed run: patch 2 does not match it
						if state[n] == orig[n] {
							want = ref2[n]
						}
						if r2.files[n] != want {
							return bad("rerun-after-kill", "%s, then a fault-free run with a second patch: %s holds %q, want %q\nstderr: %s", what, n, r2.files[n], want, firstN(r2.stderr, 300))
						}
					}
					for _, e := range r2.extra {
						if strings.HasSuffix(e, ".go") {
							return bad("stray-go-file", "%s, then a fault-free run: a new .go file was left behind: %s", what, e)
						}
					}
				}
				// "when=k" is counted per thread: if two threads reach their k-th call, two faults are injected
				// (typically the failing action and the write of its diagnostic); such executions only have
				// to satisfy the state invariant
				if c.Family == "errno" && len(hit) > 0 && !r.killed && strings.Count(r.log, "(INJECTED)") == 1 {
					// A failed action on a path of the run that keeps some file from reaching its final state
					// must be reported: non-zero exit, the path and the OS cause on stderr. A fault that does no
					// harm (close after a read) needs no report.
					var notFinal []string
					for _, n := range names {
						if r.files[n] != final[n] {
							notFinal = append(notFinal, n)
						}
					}
					if len(notFinal) > 0 {
						p := strings.SplitN(strings.SplitN(hit[0], " ", 2)[1], "#", 2)[0]
						base := filepath.Base(p)
						if i := strings.Index(base, ".gopatch-"); i > 0 {
							base = strings.TrimPrefix(base[:i], ".") // temporary file of an atomic write: the target's name counts
						}
						switch {
						case r.exit == 0:
							return bad("failure-not-reported", "%s (%v): exit status 0 although %v did not reach the final state", what, hit, notFinal)
						case strings.TrimSpace(r.stderr) == "":
							return bad("silent-failure", "%s (%v): non-zero exit %d without any diagnostic", what, hit, r.exit)
						case !strings.Contains(r.stderr, base):
							return bad("diagnostic-without-path", "%s (%v): stderr does not name the path: %q", what, hit, r.stderr)
						case !strings.Contains(r.stderr, c16ErrnoText[c.Errno]):
							return bad("diagnostic-without-cause", "%s (%v): stderr does not name the cause (%s): %q", what, hit, c16ErrnoText[c.Errno], r.stderr)
						}
					}
				}
				if !injected {
					idle++
					if idle >= 2 {
						break // k exceeds the number of such calls in every thread
					}
				} else {
					idle = 0
				}
			}
		}
		if os.Getenv("C16_DEBUG") != "" {
			fmt.Fprintf(os.Stderr, "ref=%v\ncovered=%v\n", refActions, covered)
		}
		// coverage: every action of the reference run with this syscall must have been a fault point
		var missing []string
		for _, a := range refActions {
			if strings.HasPrefix(a, c.Syscall+" ") && !covered[a] {
				missing = append(missing, a)
			}
		}
		if len(missing) > 0 && c.Family == "errno" {
			// not a verdict about gopatch: say so loudly and do not count the case as exhaustive
			return core.Outcome{Skip: fmt.Sprintf("INCOMPLETE-COVERAGE: %d action(s) of the reference run were never the fault point, e.g. %s", len(missing), missing[0])}
		}
		o.Detail = nil
	}
	o.Transitions = execs
	o.States = hits + 1
	o.Validated = execs
	o.Nontrivial = hits > 0
	o.Class = fmt.Sprintf("%s/hit=%v", c.Family, hits > 0)
	return o
}

var c16ErrnoText = map[string]string{"ENOSPC": "no space left on device", "EIO": "input/output error", "EACCES": "permission denied", "EROFS": "read-only file system"}

// c16BrokenChanges: changes that cannot be loaded (the documentation allows exactly one declaration, expression or
// statement list per change, metavariables of the three known kinds declared once, and Go code on both sides).
var c16BrokenChanges = map[string]string{
	"unknown-type":                               "@@\nvar x expresion\n@@\n-foo(x)\n+bar(x)\n",
	"missing-type":                               "@@\nvar x\n@@\n-foo(x)\n+bar(x)\n",
	"duplicate-metavariable":                     "@@\nvar x expression\nvar x identifier\n@@\n-foo(x)\n+bar(x)\n",
	"body-not-go":                                "@@\nvar x expression\n@@\n-foo(x\n+bar(x)\n",
	"two-declarations":                           "@@\n@@\n-func old() {}\n+func new1() {}\n-var a = 1\n+var a = 2\n",
	"two-declarations-after-import":              "@@\n@@\n import \"fmt\"\n\n-func old() {}\n+func new1() {}\n-var a = 1\n+var a = 2\n",
	"two-declarations-after-two-imports":         "@@\n@@\n import \"fmt\"\n import \"os\"\n\n-func old() {}\n+func new1() {}\n-var a = 1\n+var a = 2\n",
	"two-declarations-after-import-group-of-2":   "@@\n@@\n import (\n \t\"fmt\"\n \t\"os\"\n )\n\n-func old() {}\n+func new1() {}\n-var a = 1\n+var a = 2\n",
	"three-declarations-after-import-group-of-3": "@@\n@@\n import (\n \t\"fmt\"\n \t\"os\"\n \t\"io\"\n )\n\n-func old() {}\n+func new1() {}\n-var a = 1\n+var a = 2\n-var b = 1\n+var b = 2\n",
	"two-declarations-after-import-group-of-3":   "@@\n@@\n import (\n \t\"fmt\"\n \t\"os\"\n \t\"io\"\n )\n\n-func old() {}\n+func new1() {}\n-var a = 1\n+var a = 2\n",
	"two-statements-lists-sides-differ":          "@@\n@@\n-func old() {}\n+func new1() {}\n+var a = 2\n",
}

// c16Logical: per-file and per-run logical failures at every position.
func c16Logical(env *core.Env, c *C16Case) core.Outcome {
	n := len(c.Kinds)
	o := core.Outcome{Class: "logical/" + c.Logical, Nontrivial: true, Transitions: 2}
	bad := func(key, format string, a ...any) core.Outcome {
		o.Violation = fmt.Sprintf("[%s at position %d of %d] ", c.Logical, c.Position, n) + fmt.Sprintf(format, a...)
		o.FindingKey = "C16:" + key + "/" + c.Logical
		return o
	}
	root := filepath.Join(env.Scratch, "c16l")
	good := "package p\n\nfunc f%d() {\n\tfoo(%d)\n}\n"
	patchText := c16Patch
	tree := map[string]string{}
	var names, args []string
	orig := map[string]string{}
	failing := ""
	wantInStderr := []string{}
	perFile := false
	for i := 0; i < n; i++ {
		name := fmt.Sprintf("f%d.go", i)
		content := fmt.Sprintf(good, i, i)
		if i == c.Position {
			switch c.Logical {
			case "unparseable-source":
				content = "package p\n\nfunc broken( {\n"
				failing, perFile = name, true
				wantInStderr = []string{name}
			case "unparseable-source-after-line-directive": // positions in the parser's message name another file
				content = "package p\n\n//line expr.y:40\nfunc broken( {\n"
				failing, perFile = name, true
				wantInStderr = []string{name}
			case "unparseable-source-under-import-guard": // every change of the run names an import; the broken file does not mention it
				content = "package p\n\nfunc broken( {\n"
				failing, perFile = name, true
				wantInStderr = []string{name}
			case "rewrite-error":
				content = "package p\n\nfunc r() {\n\tbaz(1)\n\tfoo(2)\n}\n"
				failing, perFile = name, true
				wantInStderr = []string{name}
			case "unparseable-result":
				content = "package p\n\nfunc r() {\n\tif cond(v) {\n\t\tfoo(2)\n\t}\n}\n"
				failing, perFile = name, true
				wantInStderr = []string{name}
			case "printer-panic": // the rewritten tree cannot be printed
				content = "package p\n\nfunc pp() int {\n\tfoo(5)\n\tv := compute(1, 2)\n\treturn v\n}\n"
				failing, perFile = name, true
				wantInStderr = []string{name}
			case "engine-panic-after-applied-change": // an earlier change applies, a later one makes the engine panic
				content = "package p\n\nfunc ep() {\n\tfoo(6)\n\tsel(1 + 2)\n}\n"
				failing, perFile = name, true
				wantInStderr = []string{name}
			case "rewrite-error-import-first", "rewrite-error-import-middle", "rewrite-error-import-last":
				content = "package p\n\nfunc ri() {\n\tbaz(1)\n\tfoo(2)\n}\n"
				failing, perFile = name, true
				wantInStderr = []string{name}
			case "name-too-long-for-temporary":
				// a legal name so long that a sibling with a longer name cannot be created; the patched text is
				// shorter than the original
				name = fmt.Sprintf("f%d_", i) + strings.Repeat("n", 236) + ".go"
				content = "package p\n\nfunc long() {\n\tfoo(aVeryLongArgumentThatMakesTheOriginalLongerThanTheResult)\n\tfoo(another)\n}\n"
				failing, perFile = name, true
				wantInStderr = []string{name}
			}
		}
		tree["t/"+name] = content
		orig[name] = content
		names = append(names, name)
	}
	switch c.Logical {
	case "unparseable-source-under-import-guard":
		patchText = "@@\nvar x expression\n@@\n import \"x/lib\"\n\n-foo(x)\n+barbarbar(x, x)\n"
		for n := range tree {
			if n != "t/"+failing {
				tree[n] = strings.Replace(tree[n], "package p\n", "package p\n\nimport \"x/lib\"\n\nvar _ = lib.V\n", 1)
				orig[strings.TrimPrefix(n, "t/")] = tree[n]
			}
		}
	case "rewrite-error":
		patchText = "@@\nvar x, y expression\n@@\n-baz(x)\n+qux(x, y)\n\n" + c16Patch
	case "unparseable-result":
		patchText = "@@\nvar x expression\n@@\n-cond(x)\n+x == T{}\n\n" + c16Patch
	case "printer-panic":
		patchText = c16Patch + "\n@@\nvar x identifier\n@@\n-x := compute(...)\n+x := fallback + ...\n"
	case "engine-panic-after-applied-change":
		patchText = c16Patch + "\n@@\nvar x expression\n@@\n-sel(x)\n+bar.x\n"
	case "name-too-long-for-temporary":
		patchText = "@@\nvar x expression\n@@\n-foo(x)\n+b()\n"
	case "rewrite-error-import-first", "rewrite-error-import-middle", "rewrite-error-import-last":
		// a '+' import named by a metavariable nothing binds, at each position among the added imports
		imps := map[string]string{
			"rewrite-error-import-first":  "+import alias \"x/one\"\n+import \"x/two\"\n+import \"x/three\"\n",
			"rewrite-error-import-middle": "+import \"x/two\"\n+import alias \"x/one\"\n+import \"x/three\"\n",
			"rewrite-error-import-last":   "+import \"x/two\"\n+import \"x/three\"\n+import alias \"x/one\"\n",
		}[c.Logical]
		patchText = c16Patch + "\n@@\nvar x expression\nvar alias identifier\n@@\n" + imps + "\n-baz(x)\n+two.Baz(three.V, x)\n"
	}
	tree["p.patch"] = patchText
	args = []string{"-p", filepath.Join(root, "p.patch")}
	if shape, ok := strings.CutPrefix(c.Logical, "broken-change:"); ok {
		// one patch file of n changes of which the one at Position cannot be loaded; the others are fine
		broken, found := c16BrokenChanges[shape]
		if !found {
			panic("harness: unknown broken change " + shape)
		}
		var b strings.Builder
		for i := 0; i < n; i++ {
			switch {
			case i == c.Position:
				b.WriteString(broken)
			case i == (c.Position+1)%n:
				b.WriteString(c16Patch)
			default:
				b.WriteString("@@\nvar x expression\n@@\n-zzz(x)\n+yyy(x)\n")
			}
			b.WriteString("\n")
		}
		tree["mixed.patch"] = b.String()
		args = []string{"-p", filepath.Join(root, "mixed.patch")}
		wantInStderr = []string{"mixed.patch"}
	}
	fileArgs := append([]string{}, names...)
	switch c.Logical {
	case "missing-path", "missing-path-abs", "missing-path-abs-slash", "missing-path-abs-dots", "missing-path-abs-dotdot", "missing-dir-rel-dots":
		miss := map[string]string{
			"missing-path":            "missing_dir/nothere.go",
			"missing-path-abs":        filepath.Join(root, "t", "nothere.go"),
			"missing-path-abs-slash":  filepath.Join(root, "t", "nothere.go") + "/",
			"missing-path-abs-dots":   filepath.Join(root, "t", "nothere.go") + "/...",
			"missing-path-abs-dotdot": filepath.Join(root, "t") + "/sub/../nothere.go",
			"missing-dir-rel-dots":    "./nothere.go/...",
		}[c.Logical]
		fileArgs = append(append(append([]string{}, fileArgs[:c.Position]...), miss), fileArgs[c.Position:]...)
		wantInStderr = []string{"nothere.go", "no such file or directory"}
	case "missing-patch":
		args = []string{"-p", filepath.Join(root, "p.patch"), "-p", filepath.Join(root, "nopatch.patch")}
		if c.Position == 0 {
			args = []string{"-p", filepath.Join(root, "nopatch.patch"), "-p", filepath.Join(root, "p.patch")}
		}
		wantInStderr = []string{"nopatch.patch", "no such file or directory"}
	case "patch-is-directory":
		tree["pdir/"] = ""
		args = []string{"-p", filepath.Join(root, "pdir")}
		wantInStderr = []string{"pdir", "is a directory"}
	case "malformed-patch":
		tree["bad.patch"] = "@@\nvar x foo\n@@\n-a\n+b\n"
		args = []string{"-p", filepath.Join(root, "p.patch"), "-p", filepath.Join(root, "bad.patch")}
		wantInStderr = []string{"bad.patch"}
	case "patches-file-is-directory":
		tree["listdir/"] = ""
		args = []string{"-P", filepath.Join(root, "listdir")}
		wantInStderr = []string{"listdir"}
	case "patches-file-first-line-too-long", "patches-file-later-line-too-long":
		// a line longer than the scanner's 64 KiB token limit: the list cannot be read
		long := strings.Repeat("x", 70000)
		tree["list.txt"] = long + "\n" + filepath.Join(root, "p.patch") + "\n"
		if c.Logical == "patches-file-later-line-too-long" {
			tree["list.txt"] = filepath.Join(root, "p.patch") + "\n" + long + "\n"
		}
		args = []string{"-P", filepath.Join(root, "list.txt")}
		wantInStderr = []string{"list.txt"}
	case "missing-patches-file":
		args = []string{"-P", filepath.Join(root, "nolist.txt")}
		wantInStderr = []string{"nolist.txt", "no such file or directory"}
	case "patches-file-unterminated-names-missing-patch": // the last line of the list has no newline
		tree["list.txt"] = filepath.Join(root, "p.patch") + "\n" + filepath.Join(root, "gone.patch")
		args = []string{"-P", filepath.Join(root, "list.txt")}
		wantInStderr = []string{"gone.patch", "no such file or directory"}
	case "patches-file-unterminated-names-malformed-patch":
		tree["bad.patch"] = "@@\nvar x foo\n@@\n-a\n+b\n"
		tree["list.txt"] = filepath.Join(root, "p.patch") + "\n\n" + filepath.Join(root, "bad.patch")
		args = []string{"-P", filepath.Join(root, "list.txt")}
		wantInStderr = []string{"bad.patch"}
	case "patches-file-names-missing-patch":
		tree["list.txt"] = filepath.Join(root, "p.patch") + "\n" + filepath.Join(root, "gone.patch") + "\n"
		args = []string{"-P", filepath.Join(root, "list.txt")}
		wantInStderr = []string{"gone.patch", "no such file or directory"}
	}
	if err := drive.FreshDir(root); err != nil {
		panic(err)
	}
	defer os.RemoveAll(root)
	if err := drive.WriteTree(root, tree); err != nil {
		panic(err)
	}
	r := c16Exec(env, root, names, nil, "", append(args, fileArgs...))
	if r.killed {
		return bad("crash", "gopatch crashed: %s", firstN(r.stderr, 400))
	}
	if c.Logical == "name-too-long-for-temporary" && r.exit == 0 {
		// an implementation that manages to patch such a file is fine too: then its bytes must be complete
		soloRoot := filepath.Join(env.Scratch, "c16solo")
		drive.FreshDir(soloRoot)
		drive.WriteTree(soloRoot, map[string]string{"t/short.go": orig[failing], "p.patch": patchText})
		sr := c16Exec(env, soloRoot, []string{"short.go"}, nil, "", []string{"-p", filepath.Join(soloRoot, "p.patch"), "short.go"})
		os.RemoveAll(soloRoot)
		if r.files[failing] != sr.files["short.go"] {
			return bad("half-written-file", "exit status 0 but the long-named file holds neither its original nor its complete patched bytes: %q\nwant %q", r.files[failing], sr.files["short.go"])
		}
		return o
	}
	if r.exit == 0 {
		return bad("failure-not-reported", "exit status 0; stderr %q", r.stderr)
	}
	for _, w := range wantInStderr {
		if !strings.Contains(r.stderr, w) {
			return bad("diagnostic-incomplete", "stderr does not contain %q (path and cause must be named): %q", w, r.stderr)
		}
	}
	// for failures that are not OS errors the wording of the cause is free, but there must be one:
	// more than the path itself, and not a formatted nil
	if len(wantInStderr) == 1 {
		rest := strings.ReplaceAll(r.stderr, filepath.Join(root, "t", wantInStderr[0]), "")
		rest = strings.ReplaceAll(rest, wantInStderr[0], "")
		if len(strings.Fields(rest)) < 2 || strings.Contains(rest, "<nil>") {
			return bad("diagnostic-incomplete", "stderr names the path but no cause: %q", r.stderr)
		}
	}
	// solo results of the other files
	sort.Strings(names)
	for _, name := range names {
		if name == failing {
			if r.files[name] != orig[name] {
				return bad("failing-file-modified", "%s failed but was modified: %q", name, r.files[name])
			}
			continue
		}
		if perFile {
			// the other files must have their fault-free result
			soloRoot := filepath.Join(env.Scratch, "c16solo")
			drive.FreshDir(soloRoot)
			drive.WriteTree(soloRoot, map[string]string{"t/" + name: orig[name], "p.patch": patchText})
			sr := c16Exec(env, soloRoot, []string{name}, nil, "", []string{"-p", filepath.Join(soloRoot, "p.patch"), name})
			os.RemoveAll(soloRoot)
			if sr.files[name] != r.files[name] {
				return bad("other-file-affected", "%s: result differs from its fault-free result because %s failed:\n got  %q\n want %q", name, failing, r.files[name], sr.files[name])
			}
			if sr.files[name] == orig[name] {
				return bad("harness", "solo run did not patch %s", name)
			}
		} else if r.files[name] != orig[name] {
			// run-level failure (missing path / bad patch): either nothing is touched or files are completely patched
			if !strings.Contains(r.files[name], "barbarbar") {
				return bad("half-written-file", "%s is neither original nor patched: %q", name, r.files[name])
			}
		}
	}
	return o
}
