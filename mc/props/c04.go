package props

import (
	"fmt"
	"strings"

	"verifmc/canon"
	"verifmc/core"
	"verifmc/model"
)

func init() {
	core.Register(&core.Property{
		ID:    "C04",
		Level: "model_checking",
		Rule: "universe = for each list kind (call arguments, composite-literal elements plain and key:value, named/unnamed parameters, results, struct fields, interface methods, statements in a function body / if body / case clause, for-header) every pattern over {literal a, literal b, metavariable x, x again, elision} of bounded length with 1..3 non-adjacent elisions x every list over {a,b,c} of bounded length; '+' side in the two promised layouts: (i) every elision on a context line with one explicit element replaced, (ii) exactly one elision per side ('-' above '+' and '+' above '-'), (iii) the whole list with all its elisions on one unchanged context line and the change in a sibling statement. " +
			"The model decides by full backtracking whether some choice of runs matches, picks the lexicographically smallest run vector and predicts the output; every case is a model trace replayed against patch.Parse+Apply. non-trivial = the model says the pattern matches the list",
		Assumptions: []string{"adjacent elisions (`..., ...`) are not generated: the statement speaks of elisions separated by explicit elements"},
		Bounds: func(tier string) map[string]any {
			pl, ll := c04Bounds(tier)
			return map[string]any{"pattern_len": pl, "list_len": ll, "alphabet": "a b c / x"}
		},
		NewCase: func() any { return &MCase{} },
		Gen:     c04Gen,
		Setup:   cliSetup,
		Run: func(env *core.Env, ci any) core.Outcome {
			c := ci.(*MCase)
			opts := canon.Options{KeepParens: true}
			if strings.HasPrefix(c.Tag, "import-decl") {
				opts.MaskImports = true
			}
			v := judgeModelBoth(env, c, opts, 4)
			for _, alt := range c.Alts {
				if v.Out.Violation == "" {
					break
				}
				if alt.Render() != c.Change.Render() {
					panic("harness: an alternative reading is not the same patch text")
				}
				c2 := *c
				c2.Change, c2.Alts = alt, nil
				if v2 := judgeModelBoth(env, &c2, opts, 4); v2.Out.Violation == "" {
					v = v2
				}
			}
			v.Out = rejectionIsViolation(v.Out, c.Change.Render(), c.File)
			return c04Classify(c, v)
		},
	})
}

func c04Bounds(tier string) (patLen, listLen int) {
	if tier == "thorough" {
		return 5, 6
	}
	return 4, 4
}

// c04Kind describes one kind of list.
type c04Kind struct {
	id   string
	kind string // model kind
	// elements of the alphabet in this kind
	lit  map[string]string // a,b,c -> source text of the element
	mvar string            // text of the element that is metavariable x
	meta model.MetaVar
	dots string // text of an elision element (with %d for the index)
	sep  string // separator between elements when written on one line
	// wrap places the element lines/list into the pattern and into the file
	open, close       string // pattern lines before / after the element lines (multi-line form)
	openPlus          string // replaces open on the '+' side in single-line form (marker)
	fileOpen, fileEnd string
	eol               string // what follows each element on its own line
	mark              string // replacement for a literal element in layout (i)
	markX             string // replacement for the metavariable element in layout (i)
	oneLine           bool   // supports the single-line layout (ii)
	noCtx             bool   // the list cannot be written with one element per line (return / case / assignment lists)
	minLen            int    // shortest list the syntax allows
	// inline layout (iii): the whole list on one unchanged context line, the change is in a sibling
	// statement. inlineOpen/inlineClose wrap the one-line list in the pattern and in the file; inlineKind is
	// the model kind of that pattern (empty: the kind has no such layout).
	inlineKind, inlineOpen, inlineClose, inlineFileOpen, inlineFileEnd string
}

func c04Kinds() []c04Kind {
	ks := c04KindsBase()
	for i := range ks {
		k := &ks[i]
		switch k.id {
		case "args", "composite", "composite-kv", "type-args", "funclit-params":
			k.inlineKind = "stmts"
			k.inlineOpen, k.inlineClose = "_ = "+k.open, k.close
			k.inlineFileOpen, k.inlineFileEnd = "package p\n\nfunc _() {\n\tpre()\n\t_ = "+k.open, k.close+"\n\ttail()\n}\n"
		case "params-named", "params-unnamed":
			k.inlineKind = "decl"
			k.inlineOpen, k.inlineClose = "func f(", ") {"
			k.inlineFileOpen, k.inlineFileEnd = "package p\n\nfunc f(", ") {\n\ttail()\n}\n"
		case "results":
			k.inlineKind = "decl"
			k.inlineOpen, k.inlineClose = "func f() (", ") {"
			k.inlineFileOpen, k.inlineFileEnd = "package p\n\nfunc f() (", ") {\n\ttail()\n}\n"
		}
	}
	return ks
}

func c04KindsBase() []c04Kind {
	return []c04Kind{
		{id: "args", kind: "expr", lit: map[string]string{"a": "a", "b": "b.c", "c": "g(1)"}, mvar: "x", meta: model.MetaVar{Name: "x", Kind: "expression"},
			dots: "DOTS_%d", sep: ", ", open: "f(", close: ")", openPlus: "mark(", eol: ",", mark: "mark", markX: "mark(x)", oneLine: true,
			fileOpen: "package p\n\nfunc _() {\n\tf(", fileEnd: ")\n}\n"},
		{id: "composite", kind: "expr", lit: map[string]string{"a": "a", "b": "b.c", "c": "g(1)"}, mvar: "x", meta: model.MetaVar{Name: "x", Kind: "expression"},
			dots: "DOTS_%d", sep: ", ", open: "T{", close: "}", openPlus: "mark{", eol: ",", mark: "mark", markX: "mark(x)", oneLine: true,
			fileOpen: "package p\n\nvar _ = T{", fileEnd: "}\n"},
		{id: "composite-kv", kind: "expr", lit: map[string]string{"a": "a: 1", "b": "b: 2", "c": "c: g(1)"}, mvar: "x: 3", meta: model.MetaVar{Name: "x", Kind: "identifier"},
			dots: "DOTS_%d", sep: ", ", open: "T{", close: "}", openPlus: "mark{", eol: ",", mark: "mark: 0", markX: "x: mark", oneLine: true,
			fileOpen: "package p\n\nvar _ = T{", fileEnd: "}\n"},
		{id: "params-named", kind: "decl", lit: map[string]string{"a": "a int", "b": "b string", "c": "c ...bool"}, mvar: "x int", meta: model.MetaVar{Name: "x", Kind: "identifier"},
			dots: "_ DOTS_%d", sep: ", ", open: "func f(", close: ") {}", openPlus: "func mark(", eol: ",", mark: "mark int", markX: "x mark", oneLine: true,
			fileOpen: "package p\n\nfunc f(", fileEnd: ") {}\n"},
		{id: "params-unnamed", kind: "decl", lit: map[string]string{"a": "int", "b": "p.T", "c": "[]bool"}, mvar: "x", meta: model.MetaVar{Name: "x", Kind: "expression"},
			dots: "DOTS_%d", sep: ", ", open: "func f(", close: ")", openPlus: "func mark(", eol: ",", mark: "mark", markX: "*x", oneLine: true,
			fileOpen: "package p\n\nfunc f(", fileEnd: ")\n"},
		{id: "results", kind: "decl", lit: map[string]string{"a": "int", "b": "p.T", "c": "[]bool"}, mvar: "x", meta: model.MetaVar{Name: "x", Kind: "expression"},
			dots: "DOTS_%d", sep: ", ", open: "func f() (", close: ")", openPlus: "func mark() (", eol: ",", mark: "mark", markX: "*x", oneLine: true,
			fileOpen: "package p\n\nfunc f() (", fileEnd: ")\n"},
		{id: "struct-fields", kind: "decl", lit: map[string]string{"a": "a int", "b": "b, bb string", "c": "C"}, mvar: "x int", meta: model.MetaVar{Name: "x", Kind: "identifier"},
			dots: "DOTS_%d", sep: "; ", open: "type S struct {", close: "}", openPlus: "type Mark struct {", eol: "", mark: "mark int", markX: "x mark", oneLine: true,
			fileOpen: "package p\n\ntype S struct {", fileEnd: "}\n"},
		{id: "struct-fields-embedded", kind: "decl", lit: map[string]string{"a": "*A", "b": "p.B", "c": "c []int"}, mvar: "x int", meta: model.MetaVar{Name: "x", Kind: "identifier"},
			dots: "DOTS_%d", sep: "; ", open: "type S struct {", close: "}", openPlus: "type Mark struct {", eol: "", mark: "mark int", markX: "x mark", oneLine: true,
			fileOpen: "package p\n\ntype S struct {", fileEnd: "}\n"},
		{id: "stmts-funcbody", kind: "decl", lit: map[string]string{"a": "a()", "b": "*b.c = 1", "c": "if g(1) { a() }"}, mvar: "x()", meta: model.MetaVar{Name: "x", Kind: "identifier"},
			dots: "DOTS_%d", sep: "; ", open: "func f() {", close: "}", openPlus: "func mark() {", eol: "", mark: "mark()", markX: "mark(x)", oneLine: true,
			fileOpen: "package p\n\nfunc f() {", fileEnd: "}\n"},
		{id: "return-list", kind: "stmts", lit: map[string]string{"a": "a", "b": "b.c", "c": "g(1)"}, mvar: "x", meta: model.MetaVar{Name: "x", Kind: "expression"},
			dots: "DOTS_%d", sep: ", ", open: "return ", close: "", openPlus: "return mark, ", eol: ",", mark: "mark", markX: "mark(x)", oneLine: true, noCtx: true,
			fileOpen: "package p\n\nfunc _() {\n\tpre()\n\treturn ", fileEnd: "\n}\n"},
		{id: "case-list", kind: "stmts", lit: map[string]string{"a": "a", "b": "b.c", "c": "g(1)"}, mvar: "x", meta: model.MetaVar{Name: "x", Kind: "expression"},
			dots: "DOTS_%d", sep: ", ", open: "switch v {\ncase ", close: ":\n\thit()\n}", openPlus: "switch v {\ncase mark, ", eol: ",", mark: "mark", markX: "mark(x)", oneLine: true, noCtx: true, minLen: 1,
			fileOpen: "package p\n\nfunc _() {\n\tswitch v {\n\tcase ", fileEnd: ":\n\t\thit()\n\t}\n}\n"},
		{id: "assign-lhs", kind: "stmts", lit: map[string]string{"a": "a", "b": "b.c", "c": "m[1]"}, mvar: "x", meta: model.MetaVar{Name: "x", Kind: "expression"},
			dots: "DOTS_%d", sep: ", ", open: "", close: " = f()", openPlus: "mark, ", eol: ",", mark: "mark", markX: "mark[x]", oneLine: true, noCtx: true, minLen: 1,
			fileOpen: "package p\n\nfunc _() {\n\t", fileEnd: " = f()\n}\n"},
		{id: "type-args", kind: "expr", lit: map[string]string{"a": "A", "b": "b.C", "c": "[]int"}, mvar: "x", meta: model.MetaVar{Name: "x", Kind: "expression"},
			dots: "DOTS_%d", sep: ", ", open: "gen[", close: "](1)", openPlus: "mark[", eol: ",", mark: "Mark", markX: "*x", oneLine: true, minLen: 1,
			fileOpen: "package p\n\nvar _ = gen[", fileEnd: "](1)\n"},
		{id: "iface-methods", kind: "decl", lit: map[string]string{"a": "a()", "b": "b(int) error", "c": "C"}, mvar: "x()", meta: model.MetaVar{Name: "x", Kind: "identifier"},
			dots: "DOTS_%d", sep: "; ", open: "type I interface {", close: "}", openPlus: "type Mark interface {", eol: "", mark: "mark()", markX: "x(mark)", oneLine: true,
			fileOpen: "package p\n\ntype I interface {", fileEnd: "}\n"},
		{id: "funclit-params", kind: "expr", lit: map[string]string{"a": "a int", "b": "b string", "c": "c ...bool"}, mvar: "x int", meta: model.MetaVar{Name: "x", Kind: "identifier"},
			dots: "_ DOTS_%d", sep: ", ", open: "h(func(", close: ") {})", openPlus: "mark(func(", eol: ",", mark: "mark int", markX: "x mark", oneLine: true,
			fileOpen: "package p\n\nvar _ = h(func(", fileEnd: ") {})\n"},
		// named results (declaration and function literal), results and parameters of function literals / types
		{id: "results-named", kind: "decl", lit: map[string]string{"a": "a int", "b": "b string", "c": "c []bool"}, mvar: "x int", meta: model.MetaVar{Name: "x", Kind: "identifier"},
			dots: "_ DOTS_%d", sep: ", ", open: "func f() (", close: ") {}", openPlus: "func mark() (", eol: ",", mark: "mark int", markX: "x mark", oneLine: true, minLen: 1,
			fileOpen: "package p\n\nfunc f() (", fileEnd: ") {}\n"},
		{id: "funclit-results-named", kind: "expr", lit: map[string]string{"a": "a int", "b": "b string", "c": "c []bool"}, mvar: "x int", meta: model.MetaVar{Name: "x", Kind: "identifier"},
			dots: "_ DOTS_%d", sep: ", ", open: "h(func() (", close: ") {})", openPlus: "mark(func() (", eol: ",", mark: "mark int", markX: "x mark", oneLine: true, minLen: 1,
			fileOpen: "package p\n\nvar _ = h(func() (", fileEnd: ") {})\n"},
		{id: "funclit-results", kind: "expr", lit: map[string]string{"a": "int", "b": "p.T", "c": "[]bool"}, mvar: "x", meta: model.MetaVar{Name: "x", Kind: "expression"},
			dots: "DOTS_%d", sep: ", ", open: "h(func() (", close: ") {})", openPlus: "mark(func() (", eol: ",", mark: "mark", markX: "*x", oneLine: true, minLen: 1,
			fileOpen: "package p\n\nvar _ = h(func() (", fileEnd: ") {})\n"},
		{id: "functype-params", kind: "decl", lit: map[string]string{"a": "int", "b": "p.T", "c": "[]bool"}, mvar: "x", meta: model.MetaVar{Name: "x", Kind: "expression"},
			dots: "DOTS_%d", sep: ", ", open: "type F func(", close: ") error", openPlus: "type Mark func(", eol: ",", mark: "mark", markX: "*x", oneLine: true,
			fileOpen: "package p\n\ntype F func(", fileEnd: ") error\n"},
		// (type-parameter lists are not among the lists of the statement: gopatch refuses some patterns with elisions there)
		{id: "method-params", kind: "decl", lit: map[string]string{"a": "a int", "b": "b string", "c": "c ...bool"}, mvar: "x int", meta: model.MetaVar{Name: "x", Kind: "identifier"},
			dots: "_ DOTS_%d", sep: ", ", open: "func (r *T) m(", close: ") error {}", openPlus: "func (r *T) mark(", eol: ",", mark: "mark int", markX: "x mark", oneLine: true,
			fileOpen: "package p\n\nfunc (r *T) m(", fileEnd: ") error {}\n"},
		{id: "assign-rhs", kind: "stmts", lit: map[string]string{"a": "a", "b": "b.c", "c": "g(1)"}, mvar: "x", meta: model.MetaVar{Name: "x", Kind: "expression"},
			dots: "DOTS_%d", sep: ", ", open: "v.w = ", close: "", openPlus: "v.w = mark, ", eol: ",", mark: "mark", markX: "mark[x]", oneLine: true, noCtx: true, minLen: 1,
			fileOpen: "package p\n\nfunc _() {\n\tv.w = ", fileEnd: "\n}\n"},
		{id: "stmts-comm", kind: "stmts", lit: map[string]string{"a": "a()", "b": "b.c = 1", "c": "return"}, mvar: "x()", meta: model.MetaVar{Name: "x", Kind: "identifier"},
			dots: "DOTS_%d", sep: "; ", open: "select {\ncase <-ch:", close: "}", eol: "", mark: "mark()", markX: "mark(x)",
			fileOpen: "package p\n\nfunc _() {\n\tselect {\n\tcase <-ch:\n", fileEnd: "\n\t}\n}\n"},
		// the statement list itself is the pattern (implicit elisions at both ends, explicit ones inside): it is
		// matched against the whole body, no statement before or after
		{id: "stmts-top", kind: "stmts", lit: map[string]string{"a": "*a.p = 1", "b": "[]int{1}[0]++", "c": "if g(1) { a() }"}, mvar: "x()", meta: model.MetaVar{Name: "x", Kind: "identifier"},
			dots: "DOTS_%d", sep: "; ", open: "", close: "", eol: "", mark: "mark()", markX: "mark(x)",
			fileOpen: "package p\n\nfunc f() {", fileEnd: "}\n"},
		{id: "stmts-top-default", kind: "stmts", lit: map[string]string{"a": "*a.p = 1", "b": "[]int{1}[0]++", "c": "if g(1) { a() }"}, mvar: "x()", meta: model.MetaVar{Name: "x", Kind: "identifier"},
			dots: "DOTS_%d", sep: "; ", open: "", close: "", eol: "", mark: "mark()", markX: "mark(x)",
			fileOpen: "package p\n\nfunc f() {\n\tswitch v {\n\tcase 0:\n\t\tzero()\n\tdefault:", fileEnd: "\t}\n}\n"},
		{id: "stmts-ifbody", kind: "stmts", lit: map[string]string{"a": "a()", "b": "b.c = 1", "c": "for { a() }"}, mvar: "x()", meta: model.MetaVar{Name: "x", Kind: "identifier"},
			dots: "DOTS_%d", sep: "; ", open: "if cond {", close: "}", eol: "", mark: "mark()", markX: "mark(x)",
			fileOpen: "package p\n\nfunc _() {\n\tpre()\n\tif cond {", fileEnd: "}\n\tpost()\n}\n"},
		// a single call is an expression pattern (pgo's rule); its function literal holds the statement list
		{id: "stmts-funclit", kind: "expr", lit: map[string]string{"a": "a()", "b": "b.c = 1", "c": "if g(1) { a() }"}, mvar: "x()", meta: model.MetaVar{Name: "x", Kind: "identifier"},
			dots: "DOTS_%d", sep: "; ", open: "run(func() {", close: "})", eol: "", mark: "mark()", markX: "mark(x)",
			fileOpen: "package p\n\nfunc _() {\n\tpre()\n\tgo run(func() {", fileEnd: "})\n\tpost()\n}\n"},
		{id: "stmts-ifbody-in-closure", kind: "stmts", lit: map[string]string{"a": "a()", "b": "b.c = 1", "c": "for { a() }"}, mvar: "x()", meta: model.MetaVar{Name: "x", Kind: "identifier"},
			dots: "DOTS_%d", sep: "; ", open: "if cond {", close: "}", eol: "", mark: "mark()", markX: "mark(x)",
			fileOpen: "package p\n\nfunc _() {\n\tpre()\n\tdefer func() {\n\t\tsetup()\n\t\tif cond {", fileEnd: "}\n\t}()\n\trun(func() {\n\t\tother()\n\t})\n}\n"},
		{id: "stmts-default", kind: "stmts", lit: map[string]string{"a": "a()", "b": "b.c = 1", "c": "return"}, mvar: "x()", meta: model.MetaVar{Name: "x", Kind: "identifier"},
			dots: "DOTS_%d", sep: "; ", open: "switch v {\ndefault:", close: "}", eol: "", mark: "mark()", markX: "mark(x)",
			fileOpen: "package p\n\nfunc _() {\n\tswitch v {\n\tdefault:\n", fileEnd: "\n\t}\n}\n"},
		{id: "stmts-case", kind: "stmts", lit: map[string]string{"a": "a()", "b": "b.c = 1", "c": "return"}, mvar: "x()", meta: model.MetaVar{Name: "x", Kind: "identifier"},
			dots: "DOTS_%d", sep: "; ", open: "switch v {\ncase 1:", close: "}", eol: "", mark: "mark()", markX: "mark(x)",
			fileOpen: "package p\n\nfunc _() {\n\tswitch v {\n\tcase 1:\n", fileEnd: "\n\t}\n}\n"},
	}
}

// c04Patterns enumerates patterns of length 1..n over {a,b,x,y,D} with 1..3
// non-adjacent elisions.
func c04Patterns(n int) [][]string {
	var out [][]string
	var rec func(cur []string, dots int)
	rec = func(cur []string, dots int) {
		if len(cur) > 0 && dots >= 1 {
			// y (x again) only makes sense after an x
			out = append(out, append([]string{}, cur...))
		}
		if len(cur) == n {
			return
		}
		for _, e := range []string{"D", "a", "b", "x", "y"} {
			if e == "D" && (dots == 3 || (len(cur) > 0 && cur[len(cur)-1] == "D")) {
				continue
			}
			if e == "y" && !contains(cur, "x") {
				continue
			}
			if e == "x" && contains(cur, "x") {
				continue
			}
			d := dots
			if e == "D" {
				d++
			}
			rec(append(cur, e), d)
		}
	}
	rec(nil, 0)
	return out
}

func c04Lists(n int) [][]string {
	return seqs([]string{"a", "b", "c"}, n)
}

func c04Gen(tier string, emit func(any)) {
	pl, ll := c04Bounds(tier)
	pats := c04Patterns(pl)
	lists := c04Lists(ll)
	for ki, k := range c04Kinds() {
		kpats := pats
		klists := lists
		if ki >= 10 && tier != "thorough" {
			kpats = c04Patterns(pl - 1) // the later list kinds run one pattern length lower in the quick tier
		}
		if tier != "thorough" && contains([]string{"results-named", "funclit-results-named", "funclit-results", "functype-params", "method-params", "assign-rhs", "stmts-comm", "stmts-default", "stmts-top-default"}, k.id) {
			klists = c04Lists(ll - 1) // ... and the latest ones also one list length lower
		}
		for _, pat := range kpats {
			if strings.HasPrefix(k.id, "stmts-top") && (pat[0] == "D" || pat[len(pat)-1] == "D") {
				continue // an explicit elision next to the implicit one of a statement-list pattern
			}
			for _, ch := range c04Changes(k, pat) {
				for _, l := range klists {
					if len(l) < k.minLen {
						continue
					}
					var els []string
					for _, e := range l {
						els = append(els, k.lit[e])
					}
					sep := k.sep
					file := k.fileOpen + strings.Join(els, sep) + k.fileEnd
					if strings.HasPrefix(k.id, "stmts") || strings.HasPrefix(k.id, "struct-fields") || k.id == "iface-methods" {
						file = k.fileOpen + "\n" + strings.Join(els, "\n") + "\n" + k.fileEnd
					}
					if ch.layout == "ctx-inline" {
						file = k.inlineFileOpen + strings.Join(els, sep) + k.inlineFileEnd
					}
					if ch.layout == "ctx-two-removed" {
						file = strings.Replace(k.inlineFileOpen, "pre()", "pre(1, 2)\n\tpre2(\"p\", true)", 1) + strings.Join(els, sep) + k.inlineFileEnd
					}
					if ch.layout == "ctx-moved" {
						file = strings.Replace(k.inlineFileOpen, "pre()", "pre(1, 2)", 1) + strings.Join(els, sep) + k.inlineFileEnd
					}
					emit(&MCase{Change: ch.c, File: file, Tag: fmt.Sprintf("%s/%s/%s", k.id, ch.layout, strings.Join(pat, "")), Alts: ch.alts})
				}
			}
		}
	}
	c04ForHeader(tier, emit)
	for _, c := range importDeclCases("import-decl", false) {
		emit(c)
	}
}

type c04Change struct {
	c      *model.Change
	layout string
	alts   []*model.Change
}

// c04Changes renders the pattern in the promised '+' layouts.
func c04Changes(k c04Kind, pat []string) []c04Change {
	elem := func(e string, i int) string {
		switch e {
		case "D":
			return fmt.Sprintf(k.dots, i)
		case "x", "y":
			return k.mvar
		}
		return k.lit[e]
	}
	var out []c04Change
	meta := []model.MetaVar{}
	if contains(pat, "x") {
		meta = append(meta, k.meta)
	}
	// layout (i): every element on its own line; elisions and unchanged elements are context lines;
	// the first explicit element is replaced
	if !k.noCtx {
		var lines []string
		for _, ln := range strings.Split(k.open, "\n") {
			if k.open != "" {
				lines = append(lines, " "+ln)
			}
		}
		replaced := false
		di := 0
		for _, e := range pat {
			if e == "D" {
				di++
			}
			txt := elem(e, di) + k.eol
			if e != "D" && !replaced {
				replaced = true
				lines = append(lines, "-"+txt)
				if e == "a" || e == "b" {
					lines = append(lines, "+"+k.mark+k.eol)
				} else {
					lines = append(lines, "+"+k.markX+k.eol)
				}
				continue
			}
			lines = append(lines, " "+txt)
		}
		if replaced {
			if k.close != "" {
				lines = append(lines, " "+k.close)
			}
			out = append(out, c04Change{c: &model.Change{Meta: meta, Kind: k.kind, Lines: model.L(lines...)}, layout: "ctx"})
		}
	}
	// layouts (i'): as (i) but the explicit element is kept and a new one inserted after it /
	// the explicit element is deleted without replacement
	for _, variant := range []string{"ctx-insert", "ctx-delete"} {
		if k.noCtx {
			break
		}
		var lines []string
		for _, ln := range strings.Split(k.open, "\n") {
			if k.open != "" {
				lines = append(lines, " "+ln)
			}
		}
		done := false
		di := 0
		for _, e := range pat {
			if e == "D" {
				di++
			}
			txt := elem(e, di) + k.eol
			if e != "D" && !done {
				done = true
				if variant == "ctx-insert" {
					lines = append(lines, " "+txt, "+"+k.mark+k.eol)
				} else {
					lines = append(lines, "-"+txt)
				}
				continue
			}
			lines = append(lines, " "+txt)
		}
		if done {
			if k.close != "" {
				lines = append(lines, " "+k.close)
			}
			out = append(out, c04Change{c: &model.Change{Meta: meta, Kind: k.kind, Lines: model.L(lines...)}, layout: variant})
		}
	}
	// layout (iii): the whole list, with all its elisions, on ONE unchanged context line; a sibling statement changes
	if k.inlineKind != "" {
		var els []string
		di := 0
		for _, e := range pat {
			if e == "D" {
				di++
			}
			els = append(els, elem(e, di))
		}
		lines := []string{" " + k.inlineOpen + strings.Join(els, k.sep) + k.inlineClose, "-tail()", "+mark()"}
		if k.inlineKind == "decl" {
			lines = append(lines, " }")
		}
		out = append(out, c04Change{c: &model.Change{Meta: meta, Kind: k.inlineKind, Lines: model.L(lines...)}, layout: "ctx-inline"})
	}
	// layout (iv): as (iii), but the sibling is a call with an elision of its own that moves from above the list
	// to below it: the list keeps what it elided; the moved line's elision may repeat any '-' elision
	if k.inlineKind == "stmts" {
		var els []string
		di := 0
		for _, e := range pat {
			if e == "D" {
				di++
			}
			els = append(els, elem(e, di+1))
		}
		ctx := " " + k.inlineOpen + strings.Join(els, k.sep) + k.inlineClose
		mk := func(j int) *model.Change {
			return &model.Change{Meta: meta, Kind: "stmts", Lines: model.L("-pre(DOTS_1)", ctx, fmt.Sprintf("+pre(DOTS_%d)", j))}
		}
		ch := c04Change{c: mk(1), layout: "ctx-moved"}
		for j := 2; j <= di+1; j++ {
			ch.alts = append(ch.alts, mk(j))
		}
		out = append(out, ch)
	}
	// layout (v): two sibling calls with elisions of their own are removed above the context line that holds the list
	if k.inlineKind == "stmts" {
		var els []string
		di := 0
		for _, e := range pat {
			if e == "D" {
				di++
			}
			els = append(els, elem(e, di+2))
		}
		ctx := " " + k.inlineOpen + strings.Join(els, k.sep) + k.inlineClose
		out = append(out, c04Change{c: &model.Change{Meta: meta, Kind: "stmts", Lines: model.L("-pre(DOTS_1)", "-pre2(DOTS_2)", ctx)}, layout: "ctx-two-removed"})
	}
	// layout (ii): exactly one elision on each side, single line, both orders
	nd := 0
	for _, e := range pat {
		if e == "D" {
			nd++
		}
	}
	if nd == 1 && k.oneLine {
		var els []string
		for _, e := range pat {
			els = append(els, elem(e, 1))
		}
		body := strings.Join(els, k.sep)
		tagged := func(tag, text string) []string {
			var ls []string
			for _, ln := range strings.Split(text, "\n") {
				ls = append(ls, tag+ln)
			}
			return ls
		}
		minus := tagged("-", k.open+body+k.close)
		plus := tagged("+", k.openPlus+body+k.close)
		out = append(out, c04Change{c: &model.Change{Meta: meta, Kind: k.kind, Lines: model.L(append(append([]string{}, minus...), plus...)...)}, layout: "one-minus-first"})
		out = append(out, c04Change{c: &model.Change{Meta: meta, Kind: k.kind, Lines: model.L(append(append([]string{}, plus...), minus...)...)}, layout: "one-plus-first"})
	}
	return out
}

// c04ForHeader: `for ... { body }` against every loop header form.
func c04ForHeader(tier string, emit func(any)) {
	headers := []string{"for {", "for cond() {", "for i := 0; i < n; i++ {", "for ; ; i++ {", "for range ch {", "for k := range m {", "for k, v := range m {", "for _, v = range g(1) {", "L:\n\tfor k := range m {"}
	bodies := [][]string{{}, {"a()"}, {"a()", "b()"}, {"b()", "a()"}, {"c()", "a()", "c()"}}
	changes := []*model.Change{
		{Kind: "stmts", Lines: model.L(" for DOTS_1 {", "-a()", "+mark()", " }")},
		{Kind: "stmts", Lines: model.L(" for DOTS_1 {", " DOTS_2", "-a()", "+mark()", " DOTS_3", " }")},
		{Kind: "stmts", Meta: []model.MetaVar{{Name: "x", Kind: "identifier"}}, Lines: model.L(" for DOTS_1 {", "-x()", "+mark(x)", " DOTS_2", " }")},
		{Kind: "stmts", Lines: model.L("-for DOTS_1 {", "+for DOTS_1 {", " a()", "+mark()", " }")},
	}
	for _, ch := range changes {
		for _, h := range headers {
			for _, b := range bodies {
				file := "package p\n\nfunc _() {\n\tpre()\n\t" + h + "\n\t\t" + strings.Join(b, "\n\t\t") + "\n\t}\n\tif c {\n\t\ta()\n\t}\n}\n"
				emit(&MCase{Change: ch, File: file, Tag: "for-header"})
			}
		}
	}
}

// c04Classify narrows the finding key for the two predicted defect classes.
func c04Classify(c *MCase, v mverdict) core.Outcome {
	o := v.Out
	if o.Violation == "" || o.Skip != "" {
		return o
	}
	parts := strings.Split(c.Tag, "/")
	o.FindingKey = "C04:" + o.FindingKey + "/" + parts[0]
	if len(parts) > 1 {
		o.FindingKey += "/" + parts[1]
	}
	return o
}
