package props

import (
	"fmt"
	"os"
	"path/filepath"
	"regexp"
	"strconv"
	"strings"
	"syscall"

	"github.com/uber-go/gopatch/patch"

	"verifmc/core"
	"verifmc/drive"
)

// C19Case is a valid multi-change patch with one header/metavariable fault
// injected at a position the generator knows.
type C19Case struct {
	Patch   string `json:"patch"`
	Fault   string `json:"fault"`
	Change  int    `json:"change"`  // index of the faulty change
	Changes int    `json:"changes"` // number of changes
	Line    int    `json:"line"`    // expected 1-based line
	Col     int    `json:"col"`     // expected 1-based column (lowest accepted)
	ColMax  int    `json:"col_max"` // highest accepted column
	Name    string `json:"name"`    // patch file name handed to the API
	Mode    string `json:"mode"`    // api | cli-p | cli-stdin
	// a second, independent fault in a later change (0 = none): every position the diagnostics name must be
	// one of the two
	Line2 int `json:"line2,omitempty"`
	Col2  int `json:"col2,omitempty"`
}

var c19PosRe = regexp.MustCompile(`:(\d+):(\d+): `)

// c19StrayPos returns a position named by the diagnostics that is neither fault's position.
func c19StrayPos(c *C19Case, msg string) string {
	if c.Line2 == 0 {
		return ""
	}
	for _, m := range c19PosRe.FindAllStringSubmatch(msg, -1) {
		l, _ := strconv.Atoi(m[1])
		col, _ := strconv.Atoi(m[2])
		if (l == c.Line && col >= c.Col && col <= c.ColMax) || (l == c.Line2 && col == c.Col2) {
			continue
		}
		return m[1] + ":" + m[2]
	}
	return ""
}

const c19Target = "package a\n\nfunc f() {\n\tfoo(1)\n\ta()\n}\n"

func init() {
	core.Register(&core.Property{
		ID:    "C19",
		Level: "model_checking",
		Rule: "universe = valid 1..3-change patches x one injected header/metavariable fault x which change x every sequence of comment/blank/valid lines (bounded length) before the header and before the faulty line x indentation x {API, CLI -p, CLI stdin}; " +
			"the generator (the model) knows file:line:col of the offending token; non-trivial = fault not on line 1 (some change, comment or blank line precedes it)",
		Assumptions: []string{
			"for a declaration cut short by the end of the metavariable section (`var x,` directly before `@@`) the offending token is taken to be the end of that line (column len+1 or len+2)",
			"CLI runs go through the in-process driver (gopatch.drv = /repo main package + overlay file calling mainCmd.Run); one representative per fault kind is re-run against the real binary",
		},
		Bounds: func(tier string) map[string]any {
			return map[string]any{"changes": c19MaxChanges(tier), "prefix_len": c19MaxPrefix(tier), "indent": "0..3"}
		},
		NewCase: func() any { return &C19Case{} },
		Gen:     c19Gen,
		Run:     c19Run,
		Setup:   cliSetup,
	})
}

func c19MaxChanges(tier string) int {
	if tier == "thorough" {
		return 3
	}
	return 2
}

func c19MaxPrefix(tier string) int {
	if tier == "thorough" {
		return 4
	}
	return 2
}

// seqs enumerates all sequences over alphabet of length 0..n.
func seqs(alphabet []string, n int) [][]string {
	out := [][]string{{}}
	prev := [][]string{{}}
	for l := 1; l <= n; l++ {
		var next [][]string
		for _, p := range prev {
			for _, a := range alphabet {
				s := append(append([]string{}, p...), a)
				next = append(next, s)
			}
		}
		out = append(out, next...)
		prev = next
	}
	return out
}

type c19Fault struct {
	kind   string
	header bool // fault replaces the header line; otherwise a line inside the metavariable section
	// build returns the faulty line(s) for the given indentation, the 0-based index of the
	// line (among the returned lines) carrying the offending token, and its 1-based columns.
	build func(indent int) (lines []string, at int, col, colMax int)
	// needs "var x expression" declared before the faulty line
	needsX bool
	// only for the first change
	firstOnly bool
	noIndent  bool
}

func c19Faults() []c19Fault {
	var fs []c19Fault
	// bad change names
	for _, nm := range []struct {
		name string
		idx  int
	}{{"9x", 0}, {"a-b", 1}, {"ab.c", 2}, {"a b", 1}, {"é!", 2}} {
		for sp := 0; sp <= 2; sp++ {
			nm, sp := nm, sp
			fs = append(fs, c19Fault{kind: fmt.Sprintf("badname(%q,sp=%d)", nm.name, sp), header: true, noIndent: true,
				build: func(int) ([]string, int, int, int) {
					c := 1 + 1 + sp + nm.idx
					return []string{"@" + strings.Repeat(" ", sp) + nm.name + strings.Repeat(" ", sp) + "@"}, 0, c, c
				}})
		}
	}
	for _, junk := range []string{"foo", "-x", " @@", "var x expression"} {
		junk := junk
		fs = append(fs, c19Fault{kind: fmt.Sprintf("junk(%q)", junk), header: true, firstOnly: true, noIndent: true,
			build: func(int) ([]string, int, int, int) { return []string{junk, "@@"}, 0, 1, 1 }})
	}
	for _, h := range []string{"@foo", "@ foo", "@", "@@ x"} {
		h := h
		fs = append(fs, c19Fault{kind: fmt.Sprintf("badheader(%q)", h), header: true, noIndent: true,
			build: func(int) ([]string, int, int, int) { return []string{h}, 0, 1, 1 }})
	}
	ind := func(n int) string { return strings.Repeat(" ", n) }
	fs = append(fs,
		c19Fault{kind: "unknown-type", build: func(i int) ([]string, int, int, int) {
			return []string{ind(i) + "var y foo"}, 0, i + 7, i + 7
		}},
		c19Fault{kind: "unknown-type-2nd-name", build: func(i int) ([]string, int, int, int) {
			return []string{ind(i) + "var y, z  Foo"}, 0, i + 11, i + 11
		}},
		c19Fault{kind: "duplicate-other-decl", needsX: true, build: func(i int) ([]string, int, int, int) {
			return []string{ind(i) + "var y, x identifier"}, 0, i + 8, i + 8
		}},
		c19Fault{kind: "duplicate-same-decl", build: func(i int) ([]string, int, int, int) {
			return []string{ind(i) + "var z, z expression"}, 0, i + 8, i + 8
		}},
		c19Fault{kind: "missing-type", build: func(i int) ([]string, int, int, int) {
			return []string{ind(i) + "var y"}, 0, i + 6, i + 6
		}},
		c19Fault{kind: "comma-then-var", build: func(i int) ([]string, int, int, int) {
			return []string{"var y,", ind(i) + "var z expression"}, 1, i + 1, i + 1
		}},
		c19Fault{kind: "comma-then-comment-then-var", build: func(i int) ([]string, int, int, int) {
			return []string{"var y,", "# c", ind(i) + "var z expression"}, 2, i + 1, i + 1
		}},
		c19Fault{kind: "comma-then-end", build: func(i int) ([]string, int, int, int) {
			return []string{ind(i) + "var y,"}, 0, i + 7, i + 8
		}},
		c19Fault{kind: "missing-var", build: func(i int) ([]string, int, int, int) {
			return []string{ind(i) + "y expression"}, 0, i + 1, i + 1
		}},
		c19Fault{kind: "trailing-ident", build: func(i int) ([]string, int, int, int) {
			return []string{ind(i) + "var y expression w"}, 0, i + 18, i + 18
		}},
		c19Fault{kind: "illegal-char", build: func(i int) ([]string, int, int, int) {
			return []string{ind(i) + "var y $expression"}, 0, i + 7, i + 7
		}},
		c19Fault{kind: "number-as-name", build: func(i int) ([]string, int, int, int) {
			return []string{ind(i) + "var 1 expression"}, 0, i + 5, i + 5
		}},
	)
	return fs
}

func c19Gen(tier string, emit func(any)) {
	maxCh, maxPre := c19MaxChanges(tier), c19MaxPrefix(tier)
	faults := c19Faults()
	preHeader := seqs([]string{"# c", ""}, maxPre)
	preMeta := seqs([]string{"# c", "", "var q identifier"}, maxPre)
	validChange := func(k int, named bool) []string {
		h := "@@"
		if named {
			h = fmt.Sprintf("@ ch%d @", k)
		}
		return []string{h, "var x expression", "@@", "-foo(x)", "+bar(x)"}
	}
	for nch := 1; nch <= maxCh; nch++ {
		for at := 0; at < nch; at++ {
			for _, f := range faults {
				if f.firstOnly && at != 0 {
					continue
				}
				indents := []int{0, 1, 3}
				if f.noIndent {
					indents = []int{0}
				}
				for _, pre := range preHeader {
					// (blank lines before the first header are legal since fix 7a4d28e and are part of the universe)
					metaPres := preMeta
					if f.header {
						metaPres = [][]string{{}}
					}
					// keep the product bounded: long header prefixes go with short meta prefixes
					for _, mp := range metaPres {
						if len(pre)+len(mp) > maxPre {
							continue
						}
						for _, indent := range indents {
							for _, named := range []bool{false, true} {
								if named && (len(pre) > 0 || len(mp) > 0) && tier != "thorough" {
									continue
								}
								var lines []string
								for k := 0; k < at; k++ {
									lines = append(lines, validChange(k, named)...)
								}
								lines = append(lines, pre...)
								fl, idx, col, colMax := f.build(indent)
								var line int
								if f.header {
									line = len(lines) + idx + 1
									lines = append(lines, fl...)
									lines = append(lines, "var x expression", "@@", "-foo(x)", "+bar(x)")
								} else {
									lines = append(lines, "@@")
									if f.needsX {
										lines = append(lines, "var x expression")
									}
									lines = append(lines, mp...)
									line = len(lines) + idx + 1
									lines = append(lines, fl...)
									lines = append(lines, "@@", "-foo(1)", "+bar(1)")
								}
								for k := at + 1; k < nch; k++ {
									lines = append(lines, validChange(k, named)...)
								}
								src := strings.Join(lines, "\n") + "\n"
								if !f.header && len(pre)+len(mp) <= 1 && !named {
									// the same patch with a second faulty change at the end
									for ti, tail := range [][]string{{"@@", "var w foo", "@@", "-a(1)", "+b(1)"}, {"# d", "@ last @", "var v expression", "# c", "var u, u identifier", "@@", "-a(1)", "+b(1)"}} {
										l2, c2 := len(lines)+2, 7
										if ti == 1 {
											l2, c2 = len(lines)+5, 8
										}
										src2 := strings.Join(append(append([]string{}, lines...), tail...), "\n") + "\n"
										for _, mode := range []string{"api", "cli-p"} {
											if mode != "api" && indent != 0 {
												continue
											}
											emit(&C19Case{Patch: src2, Fault: f.kind, Change: at, Changes: nch + 1, Line: line, Col: col, ColMax: colMax, Name: "p.patch", Mode: mode, Line2: l2, Col2: c2})
										}
									}
								}
								for _, mode := range []string{"api", "cli-p", "cli-stdin", "cli-p2", "cli-P2", "cli-nogo", "cli-fifo"} {
									if mode != "api" && indent != 0 {
										continue
									}
									if (mode == "cli-p2" || mode == "cli-P2" || mode == "cli-nogo" || mode == "cli-fifo") && (len(pre)+len(mp) > 1 || named) {
										continue
									}
									name := "p.patch"
									if (len(pre)+len(mp))%2 == 1 {
										name = "dir/sub/my.patch"
									}
									emit(&C19Case{Patch: src, Fault: f.kind, Change: at, Changes: nch, Line: line, Col: col, ColMax: colMax, Name: name, Mode: mode})
								}
							}
						}
					}
				}
			}
		}
	}
}

// seqsEach calls fn for every sequence over alphabet of length 0..n without materialising the
// whole set (the slice passed to fn is reused).
func seqsEach(alphabet []string, n int, fn func([]string)) {
	cur := make([]string, 0, n)
	var rec func()
	rec = func() {
		fn(cur)
		if len(cur) == n {
			return
		}
		for _, a := range alphabet {
			cur = append(cur, a)
			rec()
			cur = cur[:len(cur)-1]
		}
	}
	rec()
}

func contains(ss []string, s string) bool {
	for _, x := range ss {
		if x == s {
			return true
		}
	}
	return false
}

func hasPos(msg, file string, line, col, colMax int) bool {
	for c := col; c <= colMax; c++ {
		if strings.Contains(msg, fmt.Sprintf("%s:%d:%d: ", file, line, c)) {
			return true
		}
	}
	return false
}

func c19Run(env *core.Env, ci any) core.Outcome {
	c := ci.(*C19Case)
	out := core.Outcome{Nontrivial: c.Line > 1, Class: "rejected-at-position/" + faultKind(c.Fault) + "/" + c.Mode}
	bad := func(key, format string, a ...any) core.Outcome {
		out.Violation = fmt.Sprintf(format, a...)
		out.FindingKey = key
		out.Class = "violation:" + key
		return out
	}
	switch c.Mode {
	case "api":
		_, err := patch.Parse(c.Name, []byte(c.Patch))
		if err == nil {
			return bad("accepted", "faulty patch (%s) was accepted", c.Fault)
		}
		if !strings.Contains(err.Error(), c.Name+":") {
			return bad("no-file-name", "diagnostic does not name the patch file %q: %v", c.Name, err)
		}
		if !hasPos(err.Error(), c.Name, c.Line, c.Col, c.ColMax) {
			return bad("wrong-position/"+faultKind(c.Fault), "diagnostic does not point at %s:%d:%d (fault %s): %v", c.Name, c.Line, c.Col, c.Fault, err)
		}
		if p := c19StrayPos(c, err.Error()); p != "" {
			return bad("stray-position/"+faultKind(c.Fault), "the patch has faults at %d:%d and %d:%d but a diagnostic names %s: %v", c.Line, c.Col, c.Line2, c.Col2, p, err)
		}
		// the diagnostic is a function of the patch: the same text fifteen more times gives the same message
		for i := 0; i < 15; i++ {
			if _, err2 := patch.Parse(c.Name, []byte(c.Patch)); err2 == nil || err2.Error() != err.Error() {
				return bad("nondeterministic-diagnostic", "the same patch gives different diagnostics:\n %v\n %v", err, err2)
			}
		}
	default:
		srv := env.Private["cli"].(*drive.Server)
		root := filepath.Join(env.Scratch, "c19")
		drive.FreshDir(root)
		if err := drive.WriteTree(root, map[string]string{"t/a.go": c19Target, "p/" + c.Name: c.Patch}); err != nil {
			panic(err)
		}
		before, _ := drive.Snap(filepath.Join(root, "t"))
		pfile := filepath.Join(root, "p", c.Name)
		args := []string{"-p", pfile, "."}
		stdin := ""
		shown := pfile
		if c.Mode == "cli-stdin" {
			args = []string{"."}
			stdin = c.Patch
			shown = "stdin"
		}
		if c.Mode == "cli-nogo" {
			// the targets select no Go file at all: the patch is rejected all the same
			os.MkdirAll(filepath.Join(root, "t", "docs", "testdata"), 0o755)
			os.WriteFile(filepath.Join(root, "t", "docs", "readme.txt"), []byte("x\n"), 0o644)
			os.WriteFile(filepath.Join(root, "t", "docs", "testdata", "x.go"), []byte("package x\n"), 0o644)
			before, _ = drive.Snap(filepath.Join(root, "t"))
			args = []string{"-p", pfile, "docs"}
		}
		if c.Mode == "cli-p2" || c.Mode == "cli-P2" {
			// the faulty patch is not the first one that is loaded
			good := filepath.Join(root, "p", "0good.patch")
			if err := os.WriteFile(good, []byte("# fine\n@@\nvar x expression\n@@\n-nomatch(x)\n+nomatch2(x)\n\n@@\n@@\n-a1()\n+a2()\n"), 0o644); err != nil {
				panic(err)
			}
			args = []string{"-p", good, "-p", pfile, "."}
			if c.Mode == "cli-P2" {
				list := filepath.Join(root, "p", "list.txt")
				if err := os.WriteFile(list, []byte(good+"\n"+pfile+"\n"), 0o644); err != nil {
					panic(err)
				}
				args = []string{"-P", list, "."}
			}
		}
		run := func(real bool) core.Outcome {
			var r drive.Result
			if c.Mode == "cli-fifo" { // the patch arrives through a named pipe of the same name
				os.Remove(pfile)
				if err := syscall.Mkfifo(pfile, 0o644); err != nil {
					panic("harness: " + err.Error())
				}
				defer drive.FeedFifo(pfile, c.Patch)()
			}
			if real {
				r = drive.RunReal(filepath.Join(env.BinDir, "gopatch.real"), filepath.Join(root, "t"), args, stdin)
			} else {
				r = srv.Run(filepath.Join(root, "t"), args, stdin)
			}
			if r.Panic != "" {
				return bad("panic", "gopatch crashed: %s", r.Panic)
			}
			after, _ := drive.Snap(filepath.Join(root, "t"))
			if d := before.Diff(after, false); d != "" {
				return bad("rewrote", "target tree changed although the patch was rejected:\n%s", d)
			}
			if r.Exit == 0 {
				return bad("accepted", "faulty patch (%s) exit status 0; stderr=%q", c.Fault, r.Stderr)
			}
			if r.Stdout != "" {
				return bad("stdout", "rejected patch but stdout not empty: %q", r.Stdout)
			}
			if !strings.Contains(r.Stderr, shown+":") {
				return bad("no-file-name", "stderr does not name the patch file %q: %q", shown, r.Stderr)
			}
			if !hasPos(r.Stderr, shown, c.Line, c.Col, c.ColMax) {
				return bad("wrong-position/"+faultKind(c.Fault), "stderr does not point at %s:%d:%d (fault %s): %q", shown, c.Line, c.Col, c.Fault, r.Stderr)
			}
			if p := c19StrayPos(c, r.Stderr); p != "" {
				return bad("stray-position/"+faultKind(c.Fault), "the patch has faults at %d:%d and %d:%d but a diagnostic names %s: %q", c.Line, c.Col, c.Line2, c.Col2, p, r.Stderr)
			}
			return out
		}
		o := run(false)
		if o.Violation != "" {
			// believe it only if the real binary agrees
			for i := 0; i < 3; i++ {
				if ro := run(true); ro.Violation == "" {
					return core.Outcome{Skip: "driver-only disagreement (not reproduced by the real binary)"}
				}
			}
			return o
		}
		os.RemoveAll(root)
	}
	return out
}

func faultKind(f string) string {
	if i := strings.IndexByte(f, '('); i > 0 {
		return f[:i]
	}
	return f
}

// cliSetup starts the in-process CLI driver for a worker.
func cliSetup(env *core.Env) error {
	srv, err := drive.NewServer(filepath.Join(env.BinDir, "gopatch.drv"))
	if err != nil {
		return err
	}
	env.Private["cli"] = srv
	return nil
}
