package props

import (
	"fmt"
	"strings"

	"verifmc/canon"
	"verifmc/core"
	"verifmc/gen"
	"verifmc/model"
)

// C05Case wraps a model trace with the interface it is run through.
type C05Case struct {
	MCase
	Mode string `json:"mode"` // api | cli | cli-skip-imports
	// Alt: the same patch text under the other reading of which '-' elision an added line's elision repeats (the
	// statement only fixes that for context lines); either reading's result is accepted.
	Alt *model.Change `json:"alt,omitempty"`
}

func init() {
	core.Register(&core.Property{
		ID:    "C05",
		Level: "model_checking",
		Rule: "universe = surroundings catalogue S (generics with constraints, labelled loops with goto/break/continue, struct tags, raw strings, iota groups, embedded interfaces, several init functions, nested closures, select/type switch, methods, bodiless functions, grouped type/var declarations, every operator and literal form) placed before / after / on both sides of / interleaved with 8 site-carrying declarations x 11 patches (expression, statement with elision, statement insertion, func-, type-, value-declaration, import add / replace, package guard / rename) x import layout {none, single, block} x {library API, CLI in place, CLI --skip-import-processing}. " +
			"Oracle: canonical output (import declarations masked) is in the model's Allowed set, which entails that the package clause and every other declaration, statement and expression are identical and in the same order. non-trivial = the change applies to the file",
		Bounds: func(tier string) map[string]any {
			return map[string]any{"surroundings": len(gen.Surroundings()), "site_decls": len(c05SiteDecls())}
		},
		NewCase: func() any { return &C05Case{} },
		Gen:     c05Gen,
		Setup:   cliSetup,
		Run: func(env *core.Env, ci any) core.Outcome {
			c := ci.(*C05Case)
			opts := canon.Options{MaskImports: true, KeepParens: true}
			judge := func(mc *MCase) mverdict {
				switch c.Mode {
				case "api":
					return judgeModelWith(mc, opts, apiRunner)
				case "cli":
					return judgeModelWith(mc, opts, cliRunner(env))
				}
				return judgeModelWith(mc, opts, cliRunner(env, "--skip-import-processing"))
			}
			v := judge(&c.MCase)
			if v.Out.Violation != "" && c.Alt != nil {
				if c.Alt.Render() != c.Change.Render() {
					panic("harness: the alternative reading is not the same patch text")
				}
				mc := c.MCase
				mc.Change = c.Alt
				if v2 := judge(&mc); v2.Out.Violation == "" {
					v = v2
				}
			}
			o := rejectionIsViolation(v.Out, c.Change.Render(), c.File)
			if o.Violation != "" {
				parts := strings.Split(c.Tag, "/")
				o.FindingKey = "C05:" + o.FindingKey + "/" + parts[0] + "/imports=" + parts[1]
				o.Violation = "[" + c.Mode + "] " + o.Violation
			}
			return o
		},
	})
}

func c05SiteDecls() []string {
	return []string{
		"func one() {\n\tpre()\n\tv := foo(1)\n\tmid()\n\tuse(v)\n\tpost()\n\treturn\n}",
		"func (r T) two() int {\n\treturn foo(r.f) + 1\n}",
		"var three = foo(\"s\")",
		"var four = func() {\n\tif foo(2) {\n\t\tfoo(3)\n\t}\n}",
		"type T struct{ a int }",
		"func foo() {\n\ta()\n\tb()\n}",
		"func seven() {\n\tp.Foo(1)\n\tw := foo(7)\n\tuse(w)\n}",
		"func nine() {\n\tfoo(1, 2, 3)\n\ttri(a, b, c)\n\tbefore()\n\tp := acquire(1)\n\tq := acquire(2)\n\tmid()\n\trelease(q)\n\tafter()\n}",
		"func ten() {\nrows:\n\tfor i := range xs {\n\t\tfoo(10)\n\t\tcontinue rows\n\t}\n\tfor {\n\t\tfoo(11)\n\t\tbreak\n\t}\n}",
		"func eleven() {\n\tprepare(1)\n\tsend(c, m, retry(3))\n\tconfirm(x, y)\n\tafter()\n}",
		"func load(path string, strict bool) (*Config, error) {\n\tprep()\n\treturn nil, nil\n}",
		"func eight() {\n\tswitch {\n\tcase c:\n\t\tx := foo(8)\n\t\tuse(x)\n\t\tafter()\n\tdefault:\n\t\tfoo(9)\n\t}\n}",
	}
}

type c05Patch struct {
	id  string
	ch  *model.Change
	alt *model.Change
}

func c05Patches() []c05Patch {
	xm := []model.MetaVar{{Name: "x", Kind: "expression"}}
	xv := []model.MetaVar{{Name: "x", Kind: "expression"}, {Name: "v", Kind: "identifier"}}
	return []c05Patch{
		{id: "expr", ch: &model.Change{Kind: "expr", Meta: xm, Lines: model.L("-foo(x)", "+mark(x)")}},
		{id: "stmt-elision", ch: &model.Change{Kind: "stmts", Meta: xv, Lines: model.L("-v := foo(x)", " DOTS_1", "-use(v)", "+mark(x)")}},
		{id: "stmt-insert", ch: &model.Change{Kind: "stmts", Meta: xv, Lines: model.L("-v := foo(x)", "+v, err := mark(x)", "+if err != nil {", "+\treturn", "+}")}},
		{id: "stmt-delete", ch: &model.Change{Kind: "stmts", Meta: xv, Lines: model.L(" v := foo(x)", "-use(v)")}},
		{id: "expr-elision-tail", ch: &model.Change{Kind: "expr", Meta: xm, Lines: model.L("-foo(DOTS_1, x)", "+mark(DOTS_1, x)")}},
		{id: "expr-elision-ctx", ch: &model.Change{Kind: "expr", Meta: xm, Lines: model.L(" tri(", " DOTS_1,", "-x,", "+mark(x),", " )")}},
		{id: "stmt-elision-retry", ch: &model.Change{Kind: "stmts", Meta: xv, Lines: model.L(" v := acquire(x)", " DOTS_1", "-release(v)", "+releaseAll(v, x)")}},
		// elisions of a deleted line, of a context line and of an added line: the context line keeps what it elided
		{id: "crossed-elisions", ch: &model.Change{Kind: "stmts", Lines: model.L("-prepare(DOTS_1)", " send(DOTS_2)", "+confirm(DOTS_1)")},
			alt: &model.Change{Kind: "stmts", Lines: model.L("-prepare(DOTS_1)", " send(DOTS_2)", "+confirm(DOTS_2)")}},
		{id: "crossed-elisions-plus-first", ch: &model.Change{Kind: "stmts", Lines: model.L("+announce(DOTS_2)", " send(DOTS_1)", "-confirm(DOTS_2)")},
			alt: &model.Change{Kind: "stmts", Lines: model.L("+announce(DOTS_1)", " send(DOTS_1)", "-confirm(DOTS_2)")}},
		{id: "for-dots", ch: &model.Change{Kind: "stmts", Meta: xm, Lines: model.L(" for DOTS_1 {", "-foo(x)", "+mark(x)", " DOTS_2", " }")}},
		{id: "sig-two-elisions", ch: &model.Change{Kind: "decl", Lines: model.L(" func load(_ DOTS_1) (DOTS_2, error) {", "-\tprep()", "+\tmark()", " DOTS_3", " }")}},
		{id: "funcdecl", ch: &model.Change{Kind: "decl", Lines: model.L("-func foo() {", "+func mark() {", " DOTS_1", " }")}},
		{id: "typedecl", ch: &model.Change{Kind: "decl", Lines: model.L("-type T struct{ a int }", "+type T struct{ mark int }")}},
		{id: "valuedecl", ch: &model.Change{Kind: "decl", Meta: xm, Lines: model.L("-var three = foo(x)", "+var three = mark(x)")}},
		{id: "import-add", ch: &model.Change{Kind: "expr", Meta: xm, Imports: []model.Import{{Tag: "+", Path: "added/q"}}, Lines: model.L("-foo(x)", "+q.Mark(x)")}},
		{id: "import-add-funcdecl", ch: &model.Change{Kind: "decl", Imports: []model.Import{{Tag: "+", Path: "added/q"}}, Lines: model.L(" func foo() {", "-\ta()", "+\tq.A()", " DOTS_1", " }")}},
		{id: "import-add-valuedecl", ch: &model.Change{Kind: "decl", Meta: xm, Imports: []model.Import{{Tag: "+", Name: "qq", Path: "added/q"}}, Lines: model.L("-var three = foo(x)", "+var three = qq.Mark(x)")}},
		{id: "import-replace-typedecl", ch: &model.Change{Kind: "decl", Imports: []model.Import{{Tag: "-", Path: "old/p"}, {Tag: "+", Path: "new/p"}}, Lines: model.L("-type T struct{ a int }", "+type T struct{ a p.Int }")}},
		{id: "import-replace", ch: &model.Change{Kind: "expr", Meta: xm, Imports: []model.Import{{Tag: "-", Path: "old/p"}, {Tag: "+", Path: "new/p"}}, Lines: model.L("-p.Foo(x)", "+p.Mark(x)")}},
		{id: "package-guard", ch: &model.Change{Kind: "expr", Meta: xm, PkgMinus: "p", PkgPlus: "p", Lines: model.L("-foo(x)", "+mark(x)")}},
		{id: "package-rename", ch: &model.Change{Kind: "expr", Meta: xm, PkgMinus: "p", PkgPlus: "q", Lines: model.L("-foo(x)", "+mark(x)")}},
	}
}

func c05File(pkg, imports string, decls []string) string {
	var b strings.Builder
	b.WriteString("package " + pkg + "\n\n")
	switch imports {
	case "single":
		b.WriteString("import \"old/p\"\n\n")
	case "block":
		b.WriteString("import (\n\t\"fmt\"\n\n\t\"old/p\"\n\tnamed \"x/y\"\n)\n\n")
	case "cgo-only": // the only import declaration is cgo's, with its preamble
		b.WriteString("/*\n#include <stdio.h>\n*/\nimport \"C\"\n\n")
	case "separate": // one import declaration per package
		b.WriteString("import \"fmt\"\n\nimport \"old/p\"\n\nimport named \"x/y\"\n\n")
	}
	b.WriteString(strings.Join(decls, "\n\n"))
	b.WriteString("\n")
	return b.String()
}

func c05Gen(tier string, emit func(any)) {
	S := gen.Surroundings()
	SD := c05SiteDecls()
	modes := []string{"api", "cli", "cli-skip-imports"}
	emitAll := func(p c05Patch, pkg, imports string, decls []string, tag string) {
		file := c05File(pkg, imports, decls)
		for _, m := range modes {
			if m == "cli-skip-imports" && !strings.HasPrefix(p.id, "import") && imports == "none" && tier != "thorough" {
				continue
			}
			emit(&C05Case{MCase: MCase{Change: p.ch, File: file, Tag: p.id + "/" + imports + "/" + tag}, Mode: m, Alt: p.alt})
		}
	}
	for _, p := range c05Patches() {
		importLayouts := []string{"none"}
		if strings.HasPrefix(p.id, "import") || tier == "thorough" {
			importLayouts = []string{"none", "single", "block", "cgo-only", "separate"}
		}
		pkgs := []string{"p"}
		if strings.HasPrefix(p.id, "package") {
			pkgs = []string{"p", "p_test", "other"}
		}
		for _, pkg := range pkgs {
			for _, il := range importLayouts {
				for si, s := range S {
					for di, d := range SD {
						// keep the product bounded: every (s, d) pair appears in one placement, rotating
						switch (si + di) % 3 {
						case 0:
							emitAll(p, pkg, il, []string{s, d}, fmt.Sprintf("before/s%d/d%d", si, di))
						case 1:
							emitAll(p, pkg, il, []string{d, s}, fmt.Sprintf("after/s%d/d%d", si, di))
						case 2:
							emitAll(p, pkg, il, []string{s, d, S[(si+7)%len(S)]}, fmt.Sprintf("both/s%d/d%d", si, di))
						}
					}
					// interleaved with several site declarations
					d1, d2, d3 := SD[si%len(SD)], SD[(si+3)%len(SD)], SD[(si+5)%len(SD)]
					emitAll(p, pkg, il, []string{S[si], d1, S[(si+1)%len(S)], d2, S[(si+2)%len(S)], d3}, fmt.Sprintf("interleaved/s%d", si))
				}
				// only site declarations, all of them
				emitAll(p, pkg, il, SD, "sites-only")
			}
		}
	}
}
