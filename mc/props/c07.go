package props

import (
	"fmt"
	"go/parser"
	"go/token"
	"os"
	"strings"

	"github.com/uber-go/gopatch/patch"

	"verifmc/core"
	"verifmc/drive"
	"verifmc/gen"
)

// C07Case: a change that puts some kind of code into some kind of slot.
type C07Case struct {
	Family string   `json:"family"` // hole-call | name
	Repl   string   `json:"repl"`   // the '+' pattern
	Ctx    string   `json:"ctx"`
	Patch  string   `json:"patch"`
	File   string   `json:"file"`
	Real   bool     `json:"real,omitempty"`  // run through the real binary only (families whose subject is the process's exit path)
	Header string   `json:"header"`          // file variant: plain | generated | imports
	Flags  []string `json:"flags"`           // [] | --diff | --print-only (+ --skip-import-processing) ; ["API"]
	Multi  []string `json:"multi,omitempty"` // several targets in one run: file kinds in path order
}

var c07MultiKinds = map[string]string{
	"fits-long":  "package p\n\nfunc a() {\n\t_ = hole(aVeryLongArgumentName + anotherLongName)\n\tother()\n\tmore()\n}\n",
	"fits-short": "package p\n\nvar v = hole(1)\n",
	"misfit":     "package p\n\nfunc m(v T) {\n\tif hole(v) {\n\t}\n\tother()\n}\n",
	"nomatch":    "package p\n\nfunc n() {}\n",
	"fits-big":   c07BigFile(),
}

// c07BigFile: a file whose patched text is several buffers long (about 12 KB)
func c07BigFile() string {
	var b strings.Builder
	b.WriteString("package p\n")
	for i := 0; i < 160; i++ {
		fmt.Fprintf(&b, "\nfunc big%03d() bool {\n\treturn hole(aVeryLongArgumentName%03d)\n}\n", i, i)
	}
	return b.String()
}

const c07MultiPatch = "@@\nvar x expression\n@@\n-hole(x)\n+x == T{}\n"

var c07SoloCache = map[string]string{}

// c07Solo: the bytes the default mode writes for one file kind processed alone (real binary; cached per worker).
func c07Solo(env *core.Env, kind string) string {
	if s, ok := c07SoloCache[kind]; ok {
		return s
	}
	sb := newSandbox(env, "c07solo", map[string]string{"v.patch": c07MultiPatch, "t/s.go": c07MultiKinds[kind]})
	defer sb.remove()
	r := sb.run(true, "t", []string{"-p", sb.path("v.patch"), "s.go"}, "")
	if r.Exit != 0 || r.Panic != "" {
		panic("harness: solo run of " + kind + " failed: " + r.Stderr + r.Panic)
	}
	c07SoloCache[kind] = sb.read("t/s.go")
	return c07SoloCache[kind]
}

// c07RunMulti: several targets in one run; whatever is on disk (or implied by the diff) afterwards parses, a file
// whose rewrite does not parse is byte-identical, and the run reports a failure iff some file misfits.
func c07RunMulti(env *core.Env, c *C07Case) core.Outcome {
	mode := strings.Join(c.Flags, " ")
	judge := func(real bool) core.Outcome {
		o := core.Outcome{Nontrivial: true, Class: "multi/" + modeClass(c.Flags)}
		bad := func(key, format string, a ...any) core.Outcome {
			o.Violation = fmt.Sprintf("[files %v, flags %q] ", c.Multi, mode) + fmt.Sprintf(format, a...)
			o.FindingKey = "C07:" + key + "/multi"
			return o
		}
		tree := map[string]string{"v.patch": c07MultiPatch}
		if c.Patch != "" {
			tree["v.patch"] = c.Patch
		}
		var names []string
		for i, k := range c.Multi {
			n := fmt.Sprintf("f%d.go", i)
			names = append(names, n)
			tree["t/"+n] = c07MultiKinds[k]
		}
		sb := newSandbox(env, "c07m", tree)
		defer sb.remove()
		r := sb.run(real, "t", append(append([]string{"-p", sb.path("v.patch")}, c.Flags...), names...), "")
		if r.Panic != "" {
			return bad("panic", "gopatch crashed: %s", r.Panic)
		}
		if (r.Exit != 0) != contains(c.Multi, "misfit") {
			return bad("exit-status", "exit %d; a failure must be reported iff some file's rewrite does not parse; stderr %q", r.Exit, r.Stderr)
		}
		diffs := map[string]*drive.FileDiff{}
		if contains(c.Flags, "--diff") {
			ds, _, err := drive.SplitUnified(r.Stdout)
			if err != nil {
				return bad("diff-malformed", "--diff output malformed: %v", err)
			}
			for _, d := range ds {
				diffs[d.Old] = d
			}
		}
		rest := r.Stdout
		for i, k := range c.Multi {
			orig := c07MultiKinds[k]
			got := sb.read("t/" + names[i])
			if contains(c.Flags, "--print-only") {
				// stdout = per file, in order: the patched text of a file that fits; the original of one that is unmatched
				// or failed, or nothing for a failed one
				if got != orig {
					return bad("dryrun-wrote", "--print-only modified %s", names[i])
				}
				want := orig
				if strings.HasPrefix(k, "fits") {
					want = c07Solo(env, k) // what the default mode writes for this file alone
				}
				switch {
				case strings.HasPrefix(rest, want):
					rest, got = rest[len(want):], want
				case k == "misfit":
					// nothing printed for the failed file
				default:
					return bad("print-truncated-or-wrong", "--print-only: the output for %s (%s) is not its complete text; remaining stdout starts %q (total %d bytes)", names[i], k, firstN(rest, 120), len(r.Stdout))
				}
				if perr := parses(got); perr != nil && k != "misfit" {
					return bad("unparseable-emitted", "%s (%s): printed text does not parse (%v)", names[i], k, perr)
				}
				continue
			}
			if contains(c.Flags, "--diff") {
				if got != orig {
					return bad("dryrun-wrote", "--diff modified %s", names[i])
				}
				if d := diffs[names[i]]; d != nil {
					var err error
					if got, err = drive.ApplyUnified(orig, d); err != nil {
						return bad("diff-does-not-apply", "--diff output for %s does not apply: %v", names[i], err)
					}
				}
			}
			if perr := parses(got); perr != nil {
				return bad("unparseable-emitted", "%s (%s) does not parse after the run (%v):\n%s", names[i], k, perr, got)
			}
			switch k {
			case "misfit", "nomatch":
				if got != orig {
					return bad("failure-but-file-modified", "%s (%s) must be left byte-identical, got:\n%s", names[i], k, got)
				}
			default:
				if got == orig || strings.Contains(got, "hole(") {
					return bad("healthy-file-not-patched", "%s (%s) was not patched although its rewrite is valid:\n%s", names[i], k, got)
				}
			}
		}
		if contains(c.Flags, "--print-only") && rest != "" {
			return bad("print-truncated-or-wrong", "--print-only printed more than the files' texts: %q", firstN(rest, 200))
		}
		return o
	}
	if c.Real {
		return judge(true)
	}
	return believeIfReal(judge)
}

func init() {
	core.Register(&core.Property{
		ID:    "C07",
		Level: "model_checking",
		Rule: "universe = replacement kinds (one per ast.Expr node type: name, literal, composite literal, function literal, selector, index, slice, type assertion, call, star, unary, binary, comparison with a composite literal, key:value-free map literal, array/map/chan/func/interface/struct types, parenthesised) put (F1) in place of hole(x) in every expression slot of the context catalogue, incl. if/for/switch headers, := left side, range clause, case lists, array length; (F2) in place of a name in every name-only and every type slot x file variant {plain, generated-code header, two-import block, cgo import \"C\" with preamble, single import} x {in place, --diff, --print-only} x --skip-import-processing on/off, plus the library API; (F3) every sequence of 2..3 targets over {fits (long), fits (short), misfit, unmatched} in one run x {in place, --diff} x --skip-import-processing. " +
			"Oracle needs no model: whatever is emitted with success status must be accepted by go/parser (for --diff: the result of applying the diff); on a reported failure exit is non-zero, stderr names the file, the file is byte-identical and nothing was printed. non-trivial = the change applies",
		Bounds: func(tier string) map[string]any {
			return map[string]any{"replacements": len(c07Repls()), "expr_slots": len(gen.ExprContexts()), "type_slots": len(gen.TypeContexts())}
		},
		NewCase: func() any { return &C07Case{} },
		Gen:     c07Gen,
		Setup:   cliSetup,
		Run:     c07Run,
	})
}

func c07Repls() []string {
	return []string{"x", "3", "T{x}", "&T{x}", "[]int{x}", "map[string]int{}", "struct{}{}", "func() int { return x }", "x.sel", "x.(T)", "x[1]", "x[1:2]", "f(x)", "*x", "<-x", "-x", "x + 1", "x == T{}", "(x)",
		"[]T", "map[K]V", "chan int", "func(int) error", "interface{ m() }", "struct{ f int }", "*T", "[3]int", "g[int]"}
}

func c07Flags() [][]string {
	return [][]string{{"API"}, {}, {"--diff"}, {"--print-only"}, {"--skip-import-processing"}, {"--diff", "--skip-import-processing"}, {"--print-only", "--skip-import-processing"}}
}

func c07Header(variant, src string) string {
	switch variant {
	case "generated":
		return "// Code generated by tool. DO NOT EDIT.\n\n" + src
	case "imports":
		return strings.Replace(src, "package p\n", "package p\n\nimport (\n\t\"fmt\"\n\t\"os\"\n)\n", 1)
	case "cgo":
		return strings.Replace(src, "package p\n", "package p\n\n/*\n#include <stdio.h>\n*/\nimport \"C\"\n", 1)
	case "one-import":
		return strings.Replace(src, "package p\n", "package p\n\nimport \"os\"\n", 1)
	case "long-line": // a line longer than the largest default buffer of the standard library (64 KiB)
		return src + "\nvar blob = \"" + strings.Repeat("x", 70000) + "\"\n"
	}
	return src
}

func c07Gen(tier string, emit func(any)) {
	emit(&C07Case{Family: "longname", Flags: []string{}})
	emit(&C07Case{Family: "longname", Flags: []string{"--skip-import-processing"}})
	emit(&C07Case{Family: "hardlink", Flags: []string{}})
	emit(&C07Case{Family: "hardlink", Flags: []string{"--skip-import-processing"}})
	for _, sq := range seqs([]string{"fits-long", "fits-short", "misfit", "nomatch"}, 3) {
		if len(sq) < 2 {
			continue
		}
		for _, fl := range [][]string{{}, {"--skip-import-processing"}, {"--diff"}, {"--diff", "--skip-import-processing"}} {
			emit(&C07Case{Family: "multi", Multi: sq, Flags: fl})
		}
	}
	// the change whose result does not parse is followed / preceded by a change that matches and alters nothing
	noop := "@@\n@@\n-other()\n+other()\n"
	for _, p := range []string{c07MultiPatch + "\n" + noop, noop + "\n" + c07MultiPatch} {
		for _, sq := range [][]string{{"misfit"}, {"fits-long", "misfit"}, {"misfit", "fits-long"}} {
			for _, fl := range [][]string{{}, {"--skip-import-processing"}, {"--diff"}, {"--diff", "--skip-import-processing"}, {"--print-only", "--skip-import-processing"}} {
				emit(&C07Case{Family: "multi", Multi: sq, Flags: fl, Patch: p})
			}
		}
	}
	// outputs longer than a buffer, with a failing file in the run, through the real binary (its exit path flushes)
	for _, sq := range seqs([]string{"fits-big", "misfit", "fits-short"}, 3) {
		if len(sq) < 2 || !contains(sq, "fits-big") {
			continue
		}
		for _, fl := range [][]string{{"--print-only"}, {"--diff"}, {}} {
			emit(&C07Case{Family: "multi", Multi: sq, Flags: fl, Real: true})
		}
	}
	emitAll := func(family, repl, ctx, patch, src string) {
		for _, h := range []string{"plain", "generated", "imports", "cgo", "one-import", "long-line"} {
			if (h == "cgo" || h == "one-import") && tier != "thorough" && family != "hole-call" {
				continue
			}
			if h == "long-line" && (family != "hole-call" || ctx != "if-cond" && ctx != "call-arg") {
				continue
			}
			if h != "plain" && !strings.HasPrefix(src, "package p\n") {
				continue
			}
			for _, fl := range c07Flags() {
				emit(&C07Case{Family: family, Repl: repl, Ctx: ctx, Patch: patch, File: c07Header(h, src), Header: h, Flags: fl})
			}
		}
	}
	for _, r := range c07Repls() {
		meta := ""
		if strings.Contains(r, "x") {
			meta = "var x expression\n"
		}
		p1 := "# a description that is reported on stderr in the dry-run modes\n@@\nvar x expression\n@@\n-hole(x)\n+" + r + "\n"
		for _, cx := range gen.ExprContexts() {
			for _, arg := range []string{"1", "a.b"} {
				if arg == "a.b" && tier != "thorough" && cx.ID != "if-cond" && cx.ID != "call-arg" {
					continue
				}
				emitAll("hole-call", r, cx.ID, p1, cx.Fill("hole("+arg+")"))
			}
		}
		if !strings.Contains(r, "x") || true {
			r2 := strings.ReplaceAll(r, "x", "y0")
			p2 := "# described\n@@\n" + meta[:0] + "@@\n-hole\n+" + r2 + "\n"
			var ctxs []gen.Ctx
			ctxs = append(ctxs, gen.IdentContexts()...)
			ctxs = append(ctxs, gen.TypeContexts()...)
			for _, cx := range ctxs {
				emitAll("name", r2, cx.ID, p2, cx.Fill("hole"))
			}
		}
	}
}

func parses(src string) error {
	_, err := parser.ParseFile(token.NewFileSet(), "a.go", src, parser.SkipObjectResolution)
	return err
}

// c07RunLongName: a target whose name leaves no room for a longer sibling name, rewritten to something shorter.
func c07RunLongName(env *core.Env, c *C07Case) core.Outcome {
	judge := func(real bool) core.Outcome {
		o := core.Outcome{Nontrivial: true, Class: "longname/" + modeClass(c.Flags)}
		name := "l_" + strings.Repeat("n", 238) + ".go"
		if c.Family == "hardlink" {
			name = "linked.go"
		}
		src := "package p\n\nvar v = shrink(aaaaaaaaaaaaaaaa, bbbbbbbbbbbbbbbbbbbb, cccccccccccccccccc)\n\nfunc tail() {\n\tshrink(1, 2, 3)\n}\n"
		sb := newSandbox(env, "c07l", map[string]string{"t/" + name: src, "v.patch": "@@\n@@\n-shrink(...)\n+s()\n"})
		defer sb.remove()
		if c.Family == "hardlink" {
			// the target has a second name outside the processed directory
			if err := os.Link(sb.path("t/"+name), sb.path("other-name.go")); err != nil {
				panic("harness: " + err.Error())
			}
		}
		r := sb.run(real, "t", append(append([]string{"-p", sb.path("v.patch")}, c.Flags...), name), "")
		got := sb.read("t/" + name)
		bad := func(key, format string, a ...any) core.Outcome {
			o.Violation = fmt.Sprintf("["+c.Family+", flags %q] ", strings.Join(c.Flags, " ")) + fmt.Sprintf(format, a...)
			o.FindingKey = "C07:" + key + "/longname"
			return o
		}
		if r.Panic != "" {
			return bad("panic", "gopatch crashed: %s", r.Panic)
		}
		if perr := parses(got); perr != nil {
			return bad("unparseable-emitted", "exit %d; the file does not parse afterwards (%v):\n%s", r.Exit, perr, got)
		}
		if r.Exit != 0 && got != src {
			return bad("failure-but-file-modified", "a failure is reported (exit %d) but the file was modified:\n%s", r.Exit, got)
		}
		if r.Exit == 0 && strings.Contains(got, "shrink") {
			return bad("success-but-not-patched", "exit status 0 but the file still contains the pattern:\n%s", got)
		}
		return o
	}
	return believeIfReal(judge)
}

func c07Run(env *core.Env, ci any) core.Outcome {
	c := ci.(*C07Case)
	if len(c.Multi) > 0 {
		return c07RunMulti(env, c)
	}
	if c.Family == "longname" || c.Family == "hardlink" {
		return c07RunLongName(env, c)
	}
	mode := strings.Join(c.Flags, " ")
	o := core.Outcome{}
	bad := func(key, format string, a ...any) core.Outcome {
		o.Violation = fmt.Sprintf("[%s, + %s, slot %s, file %s, flags %q] ", c.Family, c.Repl, c.Ctx, c.Header, mode) + fmt.Sprintf(format, a...) + "\n--- patch:\n" + c.Patch + "--- file:\n" + c.File
		o.FindingKey = "C07:" + key + "/" + modeClass(c.Flags)
		if contains(c.Flags, "--skip-import-processing") {
			o.FindingKey += "+skip-import-processing"
		}
		return o
	}
	if err := parses(c.File); err != nil {
		panic("harness: generated file does not parse: " + err.Error() + "\n" + c.File)
	}
	if len(c.Flags) == 1 && c.Flags[0] == "API" {
		pf, err := patch.Parse("v.patch", []byte(c.Patch))
		if err != nil {
			return core.Outcome{Skip: "patch rejected: " + firstWords(stripPos(err.Error()), 7)}
		}
		out, err := pf.Apply("a.go", []byte(c.File))
		if err != nil {
			o.Class = "api/error-reported"
			o.Nontrivial = true
			return o
		}
		o.Nontrivial = string(out) != c.File
		o.Class = "api/success"
		if perr := parses(string(out)); perr != nil {
			return bad("unparseable-emitted", "Apply returned success with content that does not parse (%v):\n%s", perr, out)
		}
		return o
	}
	judge := func(real bool) core.Outcome {
		sb := newSandbox(env, "c07", map[string]string{"t/a.go": c.File, "v.patch": c.Patch})
		defer sb.remove()
		args := append([]string{"-p", sb.path("v.patch")}, c.Flags...)
		args = append(args, "a.go")
		r := sb.run(real, "t", args, "")
		if r.Panic != "" {
			return bad("panic", "gopatch crashed: %s", r.Panic)
		}
		if strings.Contains(r.Stderr, "load patch") {
			return core.Outcome{Skip: "patch rejected: " + firstWords(stripPos(strings.ReplaceAll(r.Stderr, sb.Root, "")), 9)}
		}
		after := sb.read("t/a.go")
		if r.Exit != 0 {
			o.Class = modeClass(c.Flags) + "/error-reported"
			o.Nontrivial = true
			if after != c.File {
				return bad("failure-but-file-modified", "a failure is reported (exit %d) but the file was modified:\n%s", r.Exit, after)
			}
			if r.Stdout != "" {
				return bad("failure-but-output", "a failure is reported (exit %d) but content was printed: %q", r.Exit, r.Stdout)
			}
			if !strings.Contains(r.Stderr, "a.go") {
				return bad("failure-not-naming-file", "failure does not name the file: %q", r.Stderr)
			}
			return o
		}
		o.Class = modeClass(c.Flags) + "/success"
		var emitted string
		switch {
		case contains(c.Flags, "--diff"):
			diffs, _, err := drive.SplitUnified(r.Stdout)
			if err != nil {
				return bad("diff-malformed", "--diff output malformed: %v", err)
			}
			emitted = c.File
			for _, d := range diffs {
				emitted, err = drive.ApplyUnified(c.File, d)
				if err != nil {
					return bad("diff-does-not-apply", "--diff output does not apply: %v\n%s", err, r.Stdout)
				}
			}
		case contains(c.Flags, "--print-only"):
			emitted = r.Stdout
		default:
			emitted = after
		}
		o.Nontrivial = emitted != c.File
		if perr := parses(emitted); perr != nil {
			return bad("unparseable-emitted", "exit status 0 but the emitted content does not parse (%v):\n%s", perr, emitted)
		}
		return o
	}
	return believeIfReal(judge)
}
