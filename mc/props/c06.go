package props

import (
	"bytes"
	"fmt"
	"strings"

	"github.com/uber-go/gopatch/patch"

	"verifmc/core"
	"verifmc/gen"
)

// C06Case: a patch (or several) none of whose changes applies to the file.
type C06Case struct {
	PatchID string   `json:"patch_id"`
	Patches []string `json:"patches"` // one or more patch files (given with repeated -p)
	FileID  string   `json:"file_id"`
	File    string   `json:"file"`
	Flags   []string `json:"flags"`
	File2ID string   `json:"file2_id,omitempty"` // a second target (b.go) in the same run
	File2   string   `json:"file2,omitempty"`    // subset of --diff --print-only --skip-import-processing --skip-generated -v ; or ["API"]
}

func init() {
	core.Register(&core.Property{
		ID:    "C06",
		Level: "model_checking",
		Rule: "universe = non-matching (patch, file) pairs: patches of every pattern kind incl. near-misses, failing and holding package/import guards with a non-matching body, multi-change and multi-file patches x files = 4 base sources x 13 layout variants (gofmt-ed, not gofmt-ed, CRLF, no final newline, BOM, trailing whitespace, mixed indentation, odd comments, build tags, unsorted/duplicated/grouped imports) x all 24 combinations of {default,--diff,--print-only} x --skip-import-processing x --skip-generated x -v, plus the library API; near-misses in which an expression metavariable is first bound to every construct of the catalogue (statements and declarations inside a function literal) before a later argument / statement of the pattern fails; an unmatched file that follows a file whose rewrite failed; changes with several guards of which one fails while the body matches; two-change patches in which one change declares as a metavariable a name the other uses as an ordinary identifier; near-misses in which the FILE has a position-encoded token the pattern lacks (variadic, alias, grouped declaration) and for-headers with init/post around the elision; two targets in one run (5 x 3 layouts x 4 patches x 26 flag sets). " +
			"oracle needs no model: snapshot (bytes, inode, mtime, mode, no new entries), exact stdout/stderr, exit 0, Apply returns the input bytes. non-trivial = file is not in canonical gofmt form or a guard of the patch holds",
		Assumptions: []string{"the generator's claim that nothing matches is cross-checked: the output of an applied change would contain the marker identifier `mark`, which no input contains"},
		Bounds: func(tier string) map[string]any {
			return map[string]any{"patches": len(c06Patches()), "files": len(c06Files())}
		},
		NewCase: func() any { return &C06Case{} },
		Gen:     c06Gen,
		Run:     c06Run,
		Setup:   cliSetup,
	})
}

type c06Patch struct {
	id    string
	files []string
	guard bool // a package/import guard of the patch holds on (some) files
}

func c06Patches() []c06Patch {
	one := func(id, s string) c06Patch { return c06Patch{id: id, files: []string{s}} }
	g := func(id, s string) c06Patch { return c06Patch{id: id, files: []string{s}, guard: true} }
	return []c06Patch{
		one("expr", "@@\nvar x expression\n@@\n-nomatch(x)\n+mark(x)\n"),
		one("expr-nearmiss-arity", "@@\nvar x expression\n@@\n-fmt.Println(x, x, x)\n+mark(x)\n"),
		one("expr-nearmiss-variadic", "@@\nvar x expression\n@@\n-append(x, x...)\n+mark(x)\n"),
		one("stmt-elision", "# description line\n@@\nvar x identifier\n@@\n-x := nomatch()\n ...\n-return x\n+return mark(x)\n"),
		one("funcdecl", "@@\nvar f identifier\n@@\n-func f(a int, b string) error {\n+func mark(a int) error {\n   ...\n }\n"),
		one("typedecl", "@@\nvar T identifier\n@@\n-type T struct{ nomatch int }\n+type T struct{ mark int }\n"),
		one("typedecl-nearmiss-alias", "@@\n@@\n-type Alias = S\n+type mark = S\n"),
		one("valuedecl", "@@\n@@\n-var nomatch = 1\n+var mark = 1\n"),
		one("const-nearmiss", "@@\n@@\n-const C = 2\n+const mark = 2\n"),
		g("import-metavar-guard-holds", "@@\nvar n identifier\n@@\n import n \"fmt\"\n-n.Nomatch()\n+n.mark()\n"),
		g("import-unnamed-guard", "@@\n@@\n import \"fmt\"\n-fmt.Nomatch()\n+fmt.mark()\n"),
		g("import-named-guard", "@@\n@@\n import f \"fmt\"\n-f.Nomatch()\n+f.mark()\n"),
		g("import-replace", "@@\n@@\n-import \"fmt\"\n+import \"mark/fmt\"\n-fmt.Nomatch()\n+fmt.mark()\n"),
		g("import-metavar-replace", "@@\nvar n identifier\n@@\n-import n \"strings\"\n+import n \"mark/strings\"\n-n.Nomatch()\n+n.mark()\n"),
		g("package-guard-holds", "@@\n@@\n package a\n-nomatch()\n+mark()\n"),
		g("package-rename", "@@\n@@\n-package a\n+package mark\n\n-nomatch()\n+mark()\n"),
		one("package-guard-fails", "@@\nvar x expression\n@@\n package other\n-fmt.Println(x)\n+mark(x)\n"),
		one("import-guard-fails", "@@\nvar x expression\n@@\n import \"nomatch/pkg\"\n-fmt.Println(x)\n+mark(x)\n"),
		// the body matches, but one of several guards of the change does not hold
		one("package-fails-import-holds", "@@\nvar x expression\n@@\n package other\n\n import \"fmt\"\n\n-fmt.Println(x, b)\n+mark(x)\n"),
		one("first-import-fails-last-holds", "@@\nvar x expression\n@@\n import \"nomatch/pkg\"\n import \"fmt\"\n\n-fmt.Println(x, b)\n+mark(x)\n"),
		one("first-of-three-imports-fails", "@@\nvar x expression\n@@\n import \"nomatch/pkg\"\n import \"strings\"\n import \"fmt\"\n\n-fmt.Println(x, b)\n+mark(x)\n"),
		one("middle-import-fails", "@@\nvar x expression\n@@\n import (\n   \"fmt\"\n   \"nomatch/pkg\"\n   \"strings\"\n )\n\n-fmt.Println(x, b)\n+mark(x)\n"),
		one("package-holds-import-fails", "@@\nvar x expression\n@@\n package a\n\n import \"nomatch/pkg\"\n\n-fmt.Println(x, b)\n+mark(x)\n"),
		// the file has a position-encoded token that the pattern lacks
		one("nearmiss-file-variadic", "@@\nvar x expression\n@@\n-spread(x)\n+mark(x)\n"),
		one("nearmiss-file-alias", "@@\n@@\n-type Alias2 S\n+type mark S\n"),
		one("nearmiss-file-grouped", "@@\n@@\n-var G = 1\n+var mark = 1\n"),
		one("nearmiss-label-expr", "@@\nvar L expression\n@@\n-break L\n+continue L\n"),
		one("nearmiss-label-ident", "@@\nvar L identifier\n@@\n-break L\n+continue L\n"),
		one("nearmiss-for-header", "@@\nvar x identifier\n@@\n for i := 0; ...; i++ {\n-  _ = x\n+  mark(x)\n }\n"),
		one("nearmiss-for-header-init", "@@\nvar x identifier\n@@\n for i := 0; ...; {\n-  _ = x\n+  mark(x)\n }\n"),
		// a name that one change declares as a metavariable is an ordinary identifier in the other change
		one("metavar-name-is-literal-later", "@@\nvar other expression\n@@\n-nomatch(other)\n+mark(other)\n\n@@\n@@\n-other.Lock()\n+other.mark()\n"),
		one("metavar-name-is-literal-earlier", "@@\n@@\n-other.Lock()\n+other.mark()\n\n@@\nvar other identifier\n@@\n-nomatch(other)\n+mark(other)\n"),
		one("nearmiss-for-header-post", "@@\nvar x identifier\n@@\n for ; ...; i++ {\n-  _ = x\n+  mark(x)\n }\n"),
		one("nearmiss-for-header-post-break", "@@\n@@\n for ; ...; i++ {\n-  break\n+  mark()\n }\n"),
		one("two-changes", "@@\n@@\n-nomatch1()\n+mark()\n\n# second\n@ second @\nvar x expression\n@@\n-nomatch2(x)\n+mark(x)\n"),
		{id: "two-patch-files", files: []string{"@@\n@@\n-nomatch1()\n+mark()\n", "@@\nvar n identifier\n@@\n import n \"fmt\"\n-n.Nomatch(1)\n+n.mark(1)\n"}, guard: true},
	}
}

type c06File struct {
	id, src string
	canon   bool
}

func c06Files() []c06File {
	bases := []struct{ id, imports, rest string }{
		{"unnamed-imports", "import (\n\t\"fmt\"\n\t\"strings\"\n)\n", ""},
		{"named-imports", "import (\n\tf \"fmt\"\n\tstrings \"strings\"\n)\n", ""},
		{"single-import", "import \"fmt\"\n", ""},
		{"no-imports", "", ""},
	}
	body := func(pkgfmt string) string {
		return "// S is a struct.\ntype S struct {\n\tA int `json:\"a\"`\n}\n\ntype Alias S\n\nconst C = 1\n\n// F does things.\nfunc F(a int, b string) (int, error) {\n\tx := a + 1 // trailing\n\tif x > 2 {\n\t\t" + pkgfmt + "Println(x, b)\n\t}\n\ts := append([]int{}, x)\n\t_ = s\n\tspread(s...)\n\tfor {\n\t\tbreak\n\t}\n\tother.Nomatch()\n\tother.Nomatch(1)\n\tguard.Lock()\n\tfor range s {\n\t\t_ = x\n\t}\n\treturn x, nil\n}\n\ntype Alias2 = S\n\nvar (\n\tG = 1\n)\n"
	}
	var out []c06File
	for _, b := range bases {
		pf := "fmt."
		switch b.id {
		case "named-imports":
			pf = "f."
		case "no-imports":
			pf = ""
		}
		canon := "package a\n\n" + b.imports
		if b.imports != "" {
			canon += "\n"
		}
		canon += body(pf)
		add := func(id, src string, isCanon bool) {
			out = append(out, c06File{id: b.id + "/" + id, src: src, canon: isCanon})
		}
		add("gofmt", canon, true)
		add("crlf", strings.ReplaceAll(canon, "\n", "\r\n"), false)
		add("no-final-newline", strings.TrimSuffix(canon, "\n"), false)
		add("bom", "\xef\xbb\xbf"+canon, false)
		add("trailing-ws", strings.ReplaceAll(canon, "{\n", "{  \t\n"), false)
		add("spaces-indent", strings.ReplaceAll(canon, "\t", "    "), false)
		add("mixed-indent", strings.ReplaceAll(canon, "\t\t", "\t  "), false)
		add("not-gofmt", strings.ReplaceAll(strings.ReplaceAll(canon, "x := a + 1", "x:=a+1"), "func F(a int, b string)", "func F( a int,b string )"), false)
		add("odd-comments", strings.ReplaceAll(strings.ReplaceAll(canon, "package a\n", "/* lead */ package /* mid */ a // trail\n"), "return x, nil", "return /* r */ x, /* n */ nil // done"), false)
		add("build-tags", "//go:build linux && !windows\n// +build linux,!windows\n\n// Package a doc.\n"+canon, false)
		add("extra-blank-lines", strings.ReplaceAll(canon, "\n\n", "\n\n\n\n"), false)
		if b.id == "unnamed-imports" {
			// larger than any default buffer of the standard library (64 KiB), and without final newline
			var big strings.Builder
			big.WriteString(canon)
			for i := 0; big.Len() < 70000; i++ {
				fmt.Fprintf(&big, "\nvar v%05d = other.Nomatch(%d) // not gofmt-ed:  %d", i, i, i)
			}
			add("big-70k", big.String(), false)
		}
		add("semicolons", strings.ReplaceAll(canon, "\t_ = s\n", "\t_ = s; _ = s;\n"), false)
		if b.imports != "" && strings.Contains(b.imports, "(") {
			un := strings.Replace(canon, b.imports, "import (\n\t\"strings\"\n\n\t\"os\"\n\t\"fmt\"\n\t\"os\"\n)\n", 1)
			if b.id == "named-imports" {
				un = strings.Replace(canon, b.imports, "import (\n\tstrings \"strings\"\n\n\t_ \"os\"\n\tf \"fmt\"\n\t. \"os\"\n)\n", 1)
			}
			add("unsorted-dup-imports", un, false)
			add("split-imports", strings.Replace(canon, b.imports, strings.NewReplacer("import (\n\t", "import ", "\n\t", "\nimport ", "\n)\n", "\n").Replace(b.imports), 1), false)
		}
	}
	// degenerate files
	for _, dg := range [][2]string{{"package-only", "package a\n"}, {"package-only-no-newline", "package a"}, {"imports-only", "package a\n\nimport (\n\t\"fmt\"\n\t\"strings\"\n)\n"},
		{"comments-only", "// header\n\npackage a // trailing\n\n// floating\n"}, {"cgo-only", "package a\n\n/*\n#include <stdio.h>\n*/\nimport \"C\"\n"}} {
		out = append(out, c06File{id: "degenerate/" + dg[0], src: dg[1], canon: false})
	}
	return out
}

func c06FlagSets() [][]string {
	var sets [][]string
	for _, mode := range [][]string{{}, {"--diff"}, {"--print-only"}} {
		for _, sip := range []bool{false, true} {
			for _, sg := range []bool{false, true} {
				for _, v := range []bool{false, true} {
					fs := append([]string{}, mode...)
					if sip {
						fs = append(fs, "--skip-import-processing")
					}
					if sg {
						fs = append(fs, "--skip-generated")
					}
					if v {
						fs = append(fs, "-v")
					}
					sets = append(sets, fs)
				}
			}
		}
	}
	// both dry-run flags at once
	sets = append(sets, []string{"--diff", "--print-only"}, []string{"--diff", "--print-only", "-v"})
	return sets
}

func c06Gen(tier string, emit func(any)) {
	// two targets in one run: what is echoed / left alone for one must not depend on the other
	files := c06Files()
	pick := func(id string) c06File {
		for _, f := range files {
			if f.id == id {
				return f
			}
		}
		panic("harness: no file layout " + id)
	}
	firsts := []string{"unnamed-imports/no-final-newline", "unnamed-imports/crlf", "no-imports/bom", "single-import/gofmt", "no-imports/no-final-newline"}
	seconds := []string{"no-imports/gofmt", "unnamed-imports/no-final-newline", "named-imports/not-gofmt"}
	// an earlier file of the run matches but cannot be rewritten (the '+' side uses a metavariable nothing binds);
	// the file after it, to which nothing applies, is treated like any other unmatched file
	failing := "package a\n\nfunc r() {\n\tbaz(1)\n}\n"
	failPatch := "@@\nvar x, y expression\n@@\n-baz(x)\n+qux(x, y)\n"
	for _, b := range append(append([]string{}, firsts...), seconds...) {
		for _, fs := range c06FlagSets() {
			emit(&C06Case{PatchID: "after-failure", Patches: []string{failPatch}, FileID: "failing", File: failing, File2ID: b, File2: pick(b).src, Flags: fs})
		}
	}
	for _, p := range c06Patches()[:4] {
		for _, a := range firsts {
			for _, b := range seconds {
				for _, fs := range c06FlagSets() {
					emit(&C06Case{PatchID: p.id, Patches: p.files, FileID: a, File: pick(a).src, File2ID: b, File2: pick(b).src, Flags: fs})
				}
			}
		}
	}
	// near-misses whose metavariable is bound, before a later part of the pattern fails, to every construct of the
	// catalogue (statement and declaration constructs inside a function literal)
	for _, k := range gen.Constructs() {
		bound := k.Src
		switch {
		case k.Kind == "stmts":
			bound = "func() {\n\t\t" + strings.ReplaceAll(k.Src, "\n", "\n\t\t") + "\n\t}"
		case k.Kind == "decl" && !strings.HasPrefix(k.Src, "func"):
			bound = "func() {\n\t\t" + strings.ReplaceAll(k.Src, "\n", "\n\t\t") + "\n\t}"
		case k.Kind == "decl":
			continue
		}
		file := "package a\n\nfunc site() {\n\thold(" + bound + ", 1)\n\tother()\n}\n"
		for _, p := range [][2]string{
			{"second-arg-fails", "@@\nvar x expression\n@@\n-hold(x, nomatch)\n+mark(x)\n"},
			{"after-elision-fails", "@@\nvar x expression\n@@\n-hold(x, ..., nomatch)\n+mark(x)\n"},
			{"next-statement-fails", "@@\nvar x, y expression\n@@\n-hold(x, y)\n-nomatch()\n+mark(x)\n"},
		} {
			for _, fs := range [][]string{{"API"}, {}, {"--print-only"}, {"--diff"}} {
				emit(&C06Case{PatchID: "catalogue/" + p[0], Patches: []string{p[1]}, FileID: "K/" + k.ID, File: file, Flags: fs})
			}
		}
	}
	for _, p := range c06Patches() {
		for _, f := range c06Files() {
			emit(&C06Case{PatchID: p.id, Patches: p.files, FileID: f.id, File: f.src, Flags: []string{"API"}})
			for _, fs := range c06FlagSets() {
				emit(&C06Case{PatchID: p.id, Patches: p.files, FileID: f.id, File: f.src, Flags: fs})
			}
		}
	}
}

func c06Run(env *core.Env, ci any) core.Outcome {
	c := ci.(*C06Case)
	nontrivial := !strings.HasSuffix(c.FileID, "/gofmt")
	for _, p := range c06Patches() {
		if p.id == c.PatchID && p.guard {
			nontrivial = true
		}
	}
	mode := strings.Join(c.Flags, " ")
	out := core.Outcome{Nontrivial: nontrivial, Class: "untouched/" + modeClass(c.Flags)}
	bad := func(key, f string, a ...any) core.Outcome {
		out.Violation = fmt.Sprintf("[patch %s, file %s, flags %q] ", c.PatchID, c.FileID, mode) + fmt.Sprintf(f, a...)
		out.FindingKey = key
		return out
	}
	if len(c.Flags) == 1 && c.Flags[0] == "API" {
		src := []byte(c.File)
		for i, p := range c.Patches {
			pf, err := patch.Parse(fmt.Sprintf("p%d.patch", i), []byte(p))
			if err != nil {
				return core.Outcome{Skip: "patch rejected: " + firstWords(err.Error(), 8)}
			}
			res, err := pf.Apply("a.go", src)
			if err != nil {
				return bad("api-error", "Apply returned an error: %v", err)
			}
			if !bytes.Equal(res, []byte(c.File)) {
				return bad("api-changed", "nothing matches but Apply returned different bytes:\n%q\nwant\n%q", res, c.File)
			}
		}
		return out
	}
	judge := func(real bool) core.Outcome {
		tree := map[string]string{"t/a.go": c.File}
		if c.File2ID != "" {
			tree["t/b.go"] = c.File2
		}
		for i, p := range c.Patches {
			tree[fmt.Sprintf("p%d.patch", i)] = p
		}
		sb := newSandbox(env, "c06", tree)
		defer sb.remove()
		before := sb.snap("t")
		var args []string
		for i := range c.Patches {
			args = append(args, "-p", sb.path(fmt.Sprintf("p%d.patch", i)))
		}
		args = append(args, c.Flags...)
		args = append(args, ".")
		r := sb.run(real, "t", args, "")
		if r.Panic != "" {
			return bad("panic", "gopatch crashed: %s", r.Panic)
		}
		if strings.Contains(r.Stderr, "load patch") {
			return core.Outcome{Skip: "patch rejected: " + firstWords(r.Stderr, 8)}
		}
		if d := before.Diff(sb.snap("t"), false); d != "" {
			return bad("touched", "nothing matches but the tree changed:\n%s\ncontent now: %q", d, sb.read("t/a.go"))
		}
		if c.PatchID == "after-failure" {
			// a.go fails (exit 1, its path on stderr, nothing printed for it); b.go is an unmatched file like any other
			if r.Exit == 0 || !strings.Contains(r.Stderr, "a.go") || strings.Contains(r.Stderr, "b.go") {
				return bad("after-failure", "expected a failure naming a.go only: exit %d, stderr %q", r.Exit, r.Stderr)
			}
			// stdout: [the failed file echoed as it is] [a log line about it] the unmatched file's bytes (--print-only)
			// [a log line about it (-v)] — whether and how the failed file shows up is not this property's business
			rest := r.Stdout
			if contains(c.Flags, "--print-only") && strings.HasPrefix(rest, c.File) {
				rest = rest[len(c.File):]
			}
			if r2, ok := cutLogLine(rest, sb.path("t/a.go")); ok && contains(c.Flags, "-v") {
				rest = r2
			}
			if contains(c.Flags, "--print-only") {
				if !strings.HasPrefix(rest, c.File2) {
					return bad("after-failure", "after a file that failed, --print-only does not echo the unmatched file: stdout %q", r.Stdout)
				}
				rest = rest[len(c.File2):]
			}
			if contains(c.Flags, "-v") {
				var ok bool
				if rest, ok = cutLogLine(rest, sb.path("t/b.go")); !ok {
					return bad("after-failure", "-v: expected one log line about the unmatched file, stdout %q", r.Stdout)
				}
			}
			if rest != "" {
				return bad("after-failure", "after a file that failed, unexpected output for the unmatched file: %q (stdout %q)", rest, r.Stdout)
			}
			return out
		}
		if r.Exit != 0 {
			return bad("exit", "exit %d, stderr %q", r.Exit, r.Stderr)
		}
		if r.Stderr != "" {
			return bad("stderr", "stderr not empty: %q", r.Stderr)
		}
		rest := r.Stdout
		if contains(c.Flags, "--print-only") {
			if !strings.HasPrefix(rest, c.File) {
				return bad("stdout", "--print-only did not echo the original bytes:\n got %q\nwant %q", r.Stdout, c.File)
			}
			rest = rest[len(c.File):]
		}
		if contains(c.Flags, "-v") {
			// one log line about the file (its wording is not the property's business)
			var ok bool
			if rest, ok = cutLogLine(rest, sb.path("t/a.go")); !ok {
				return bad("stdout", "-v: expected one log line about the file, got %q", rest)
			}
		}
		if c.File2ID != "" {
			if contains(c.Flags, "--print-only") {
				if !strings.HasPrefix(rest, c.File2) {
					return bad("stdout", "--print-only did not echo the original bytes of the second file right after the first:\n got %q\nwant %q", rest, c.File2)
				}
				rest = rest[len(c.File2):]
			}
			if contains(c.Flags, "-v") {
				var ok bool
				if rest, ok = cutLogLine(rest, sb.path("t/b.go")); !ok {
					return bad("stdout", "-v: expected one log line about the second file, got %q", rest)
				}
			}
		}
		if rest != "" {
			return bad("stdout", "unexpected output for a file nothing applies to: %q", rest)
		}
		return out
	}
	return believeIfReal(judge)
}

func modeClass(flags []string) string {
	switch {
	case contains(flags, "API"):
		return "api"
	case contains(flags, "--diff") && contains(flags, "--print-only"):
		return "diff+print"
	case contains(flags, "--diff"):
		return "diff"
	case contains(flags, "--print-only"):
		return "print"
	}
	return "write"
}
