package props

import (
	"fmt"
	"os"
	"path/filepath"
	"sort"
	"strings"

	"github.com/uber-go/gopatch/patch"

	"verifmc/core"
	"verifmc/drive"
)

// C12Case: one patch set x one file set x the three non-mode flags; the run
// executes every output mode and relates them.
type C12Case struct {
	PatchID string            `json:"patch_id"`
	Patches []string          `json:"patches"`
	Files   map[string]string `json:"files"` // name -> content
	Args    string            `json:"args"`  // dot | dot+abs (the directory and, again, the absolute path of its first file) | dot+dir
	SIP     bool              `json:"skip_import_processing"`
	SG      bool              `json:"skip_generated"`
	V       bool              `json:"verbose"`
	// Env: "" | "stderr-full": the dry-run modes run (real binary) with a stderr on which every write fails; what
	// they print on stdout is what it is with a working stderr.
	Env string `json:"env,omitempty"`
}

func init() {
	core.Register(&core.Property{
		ID:    "C12",
		Level: "model_checking",
		Rule: "universe = patch sets (single change, two changes with/without descriptions, import edits, statement/declaration patterns, two patch files) x every non-empty subset of each of three 4-file sets {match, match+imports, no match, generated | no final newline, CRLF, not gofmt-ed, import rewrite | BOM, cgo preamble, raw strings, generics+label+build constraint} x all combinations of --skip-import-processing, --skip-generated, -v; each case is executed in all four mode combinations (default, --diff, --print-only, --diff --print-only) = all 32 flag combinations. " +
			"oracle: whole-tree snapshot identical for dry runs; bytes written == --print-only output == patch(1)-style application of the --diff output == library API; descriptions only on stderr and only for files to which a described change applied. non-trivial = at least one file is rewritten",
		Assumptions: []string{
			"the unified diff is applied with patch(1) semantics by an independent applier (lines outside hunks are copied verbatim)",
			"the library API is compared only for single-patch-file cases without --skip-import-processing (the API has no such option)",
			"the static inventory of write sites named in the property's anchors is a different technique and is not performed",
		},
		Bounds: func(tier string) map[string]any {
			return map[string]any{"patch_sets": len(c12Patches()), "file_sets": 30}
		},
		NewCase: func() any { return &C12Case{} },
		Gen:     c12Gen,
		Run:     c12Run,
		Setup:   cliSetup,
	})
}

type c12Patch struct {
	id    string
	files []string
}

func c12Patches() []c12Patch {
	chA := "# DESCTOKEN-A first\n# DESCTOKEN-A second\n@@\nvar x expression\n@@\n-f1(x)\n+g1(x)\n"
	chB := "@ b @\nvar x expression\n@@\n-f2(x)\n+g2(x, x)\n"
	chBdesc := "# DESCTOKEN-B\n@ b @\nvar x expression\n@@\n-f2(x)\n+g2(x, x)\n"
	chImp := "# DESCTOKEN-I\n@@\n@@\n-import \"old/p\"\n+import \"new/p\"\n\n-p.F1()\n+p.G1()\n"
	chAdd := "# DESCTOKEN-ADD\n@@\nvar x expression\n@@\n+import \"added/q\"\n\n-f1(x)\n+q.G1(x)\n"
	chStmt := "# DESCTOKEN-S\n@@\nvar v identifier\n@@\n-v := f1(1)\n+v, err := g1(1)\n ...\n"
	chDecl := "# DESCTOKEN-D\n@@\nvar n identifier\n@@\n-func n() int {\n+func n() (int, error) {\n ...\n }\n"
	chChain := "# DESCTOKEN-C\n@@\nvar x expression\n@@\n-g1(x)\n+h1(x)\n"
	// '#' lines inside a change (metavariable section, body) are comments, never descriptions of this or the next change
	chAinner := "# DESCTOKEN-A first\n@@\n# inner comment in the metavariable section\nvar x expression\n@@\n# inner comment in the body\n-f1(x)\n+g1(x)\n# trailing comment of the body\n\n"
	chNoop := "# DESCTOKEN-NOOP\n@@\nvar a, b expression\n@@\n-swap(a, b)\n+swap(b, a)\n"
	chShrink := "# DESCTOKEN-SHRINK\n@@\nvar x expression\n@@\n-veryLongFunctionName(x)\n+s(x)\n"
	return []c12Patch{
		// patches that cannot be loaded: every mode and the library must agree on rejecting them
		{"reject-unknown-type", []string{chA + "\n@@\nvar x expresion\n@@\n-f2(x)\n+g2(x)\n"}},
		{"reject-duplicate-metavariable", []string{"@@\nvar x expression\nvar x identifier\n@@\n-f1(x)\n+g1(x)\n"}},
		{"reject-body-not-go", []string{chA + "\n@@\nvar x expression\n@@\n-f2(x\n+g2(x)\n"}},
		// a '+' side whose elision has no counterpart on the '-' side
		{"plus-only-elision", []string{"# DESCTOKEN-A first\n@@\nvar x expression\n@@\n-f1(x)\n+g1(x, ...)\n"}},
		// every site of the described change is a name-only slot in which the replacement cannot stand: nothing changes
		{"inadmissible-only", []string{"# DESCTOKEN-Q\n@@\n@@\n-F\n+pkg.F\n"}},
		{"noop-swap", []string{chNoop}},
		{"noop-swap+A", []string{chNoop + "\n" + chA}},
		{"shrink", []string{chShrink}},
		{"shrink+A", []string{chShrink + "\n" + chA}},
		{"Ainner+B", []string{chAinner + chB}},
		{"Ainner+Bdesc", []string{chAinner + chBdesc}},
		{"two-files:Ainner,B", []string{chAinner, chB}},
		{"B+Ainner+B", []string{chB + "\n" + chAinner + strings.Replace(chB, "@ b @", "@ b2 @", 1)}},
		{"A", []string{chA}},
		{"B-nodesc", []string{chB}},
		{"A+B", []string{chA + "\n" + chB}},
		{"B+A", []string{chB + "\n" + chA}},
		{"A+Bdesc", []string{chA + "\n" + chBdesc}},
		{"A+chain", []string{chA + "\n" + chChain}},
		{"import-rewrite", []string{chImp}},
		{"import-add", []string{chAdd}},
		{"stmt-elision", []string{chStmt}},
		{"funcdecl", []string{chDecl}},
		{"two-files:A,B", []string{chA, chB}},
		{"two-files:imp,A", []string{chImp, chA}},
	}
}

// c12Layout: changes whose effect on the printed bytes depends on the bookkeeping of changed regions
// (elided context around a rewrite, statements joined or deleted, code with comments removed, insertions);
// every ordered pair and triple of them is applied as one patch file and as separate patch files.
var c12Layout = []string{
	"@@\n@@\n func run() error {\n   ...\n-  setup()\n+  initialize()\n   ...\n }\n",
	"@@\nvar f expression\nvar err identifier\n@@\n-err := f\n-if err != nil {\n+if err := f; err != nil {\n   ...\n   return ...\n }\n",
	"@@\nvar x expression\n@@\n-log(x)\n",
	"@@\n@@\n-open()\n+openFile(\"a\", 1)\n",
	"@@\n@@\n initialize()\n+defer teardown()\n",
	"@@\n@@\n-func helper() {\n+func helper2() {\n   ...\n }\n",
	"@@\nvar x expression\n@@\n-debug(x)\n",
	"@@\n@@\n-return nil\n+return wrap(nil)\n",
	"@@\nvar x expression\n@@\n-unwrap(x)\n+x\n",
}

var c12LayoutSources = map[string]string{
	"inline.go": "package main\n\nfunc run() error {\n\tsetup()\n\tv := add(unwrap(20 /* twenty */), 1) // sum\n\tlog(unwrap(v /* inner */ + /* plus */ 2))\n\treturn nil\n}\n",
	"run.go":    "package main\n\nfunc run() error {\n\tsetup()\n\t// Open it.\n\terr := open()\n\tif err != nil {\n\t\tlog(err)\n\t\treturn err\n\t}\n\treturn nil\n}\n",
	"two.go":    "package main\n\n// helper helps.\nfunc helper() {\n\tdebug(func() { // inner\n\t\tx()\n\t})\n\n\tlog(1) // gone\n}\n\nfunc run() error {\n\tsetup() // trailing\n\n\tdebug(1)\n\n\t/* block */\n\terr := open()\n\tif err != nil {\n\t\treturn err\n\t}\n\n\treturn nil\n}\n",
}

func c12LayoutPatches(tier string) []c12Patch {
	var out []c12Patch
	n := len(c12Layout)
	add := func(ids ...int) {
		var parts []string
		name := "layout"
		for _, i := range ids {
			parts = append(parts, c12Layout[i])
			name += fmt.Sprintf(":%d", i)
		}
		out = append(out, c12Patch{name, []string{strings.Join(parts, "\n")}})
		out = append(out, c12Patch{name + "/files", parts})
	}
	for i := 0; i < n; i++ {
		for j := 0; j < n; j++ {
			add(i, j)
			if tier != "thorough" && i != 0 && j != 0 {
				continue // quick: triples that contain the elided-context change first or second
			}
			for k := 0; k < n; k++ {
				add(i, j, k)
			}
		}
	}
	return out
}

func c12FileSets() [][]string {
	return [][]string{{"doc.go", "m1.go", c12LongName, "crlf.go"}, {"m1.go", "m2.go", "n.go", "gen.go"}, {"nonl.go", "crlf.go", "ugly.go", "imp.go"}, {"bom.go", "cgo.go", "raw.go", "generic.go"}, {"hl.go", "m1.go", "nonl.go", "hl2.go"}, {"big.go"}, {"wide.go"}}
}

// c12Modes: files of the catalogue that carry other permission bits than 0644
var c12Modes = map[string]os.FileMode{"m1.go": 0o755, "m2.go": 0o600, "nonl.go": 0o444, "imp.go": 0o664}

// c12BigFile: more than 64 KiB, with sites at the start, in the middle and at the end
func c12BigFile() string {
	var b strings.Builder
	b.WriteString("package a\n\nvar first = f1(0)\n")
	for i := 0; b.Len() < 68000; i++ {
		fmt.Fprintf(&b, "\nfunc big%04d() int { return f2(%d) + %d }\n", i, i, i)
	}
	b.WriteString("\nvar last = f1(9)\n")
	return b.String()
}

// c12LongName: a legal file name so long that a sibling with a longer name cannot be created
var c12LongName = "l_" + strings.Repeat("n", 236) + ".go"

var c12Sources = map[string]string{
	// a file without declarations, and a file whose temporary sibling cannot be created (the patch makes it shorter)
	"doc.go": "// Package a does things.\npackage a\n",
	"big.go": c12BigFile(),
	// one line of more than 64 KiB (a bufio.Scanner gives up on it)
	"wide.go":   "package a\n\nvar wide = \"" + strings.Repeat("w", 70000) + "\"\n\nfunc W() int {\n\tv := f1(1)\n\treturn v + f2(2)\n}\n",
	c12LongName: "package a\n\nvar L = veryLongFunctionName(1) + veryLongFunctionName(2)\n\nvar M = f1(3)\n",
	"m1.go":     "package a\n\n// F doc.\nfunc F() int {\n\tv := f1(1)\n\treturn v\n}\n",
	"m2.go":     "package a\n\nimport (\n\t\"fmt\"\n\t\"os\"\n)\n\nfunc G() {\n\tfmt.Println(f1(2), f2(os.Args))\n\tf2(3) // trailing\n}\n",
	"n.go":      "package a\n\nfunc N(a int) int   { return   a }\n",
	"gen.go":    "// Code generated by x. DO NOT EDIT.\n\npackage a\n\nfunc H() int {\n\tv := f1(1)\n\treturn v + f2(2)\n}\n",
	"nonl.go":   "package a\n\nvar A = f1(1)\n\nvar B = 2\n\nvar C = 3\n\nvar D = 4\n\nvar E = 5\n\nvar Z = 26",
	"crlf.go":   "package a\r\n\r\nvar A = f1(1)\r\n\r\nvar B = f2(2)\r\n",
	"ugly.go":   "package a\nfunc U( ) {  x:=f2( 1 );_ = x\n  f1(x);swap( x,x )}\n",
	// hl.go and hl2.go have a second hard link outside the processed tree; the patch "shrink" makes them shorter
	"hl.go":      "package a\n\nvar H = veryLongFunctionName(1) + veryLongFunctionName(2)\n\nvar I = f1(3)\n",
	"hl2.go":     "package a\n\nfunc H2() {\n\tveryLongFunctionName(f2(4))\n}\n",
	"bom.go":     "\xef\xbb\xbfpackage a\n\nvar A = f1(1)\n",
	"cgo.go":     "package a\n\n/*\n#include <stdio.h>\n*/\nimport \"C\"\n\nimport \"os\"\n\nfunc K() {\n\tf1(C.int(1))\n\tf2(os.Args)\n}\n",
	"raw.go":     "package a\n\nvar S = `f1(1)\n\tf2(2)  \n` // f1(3)\n\nfunc R() string {\n\treturn f1(S) + `\n`\n}\n",
	"generic.go": "//go:build !ignore\n\npackage a\n\nfunc G[T any](v T) T {\nL:\n\tfor {\n\t\tf1(v)\n\t\tbreak L\n\t}\n\treturn f2[T](v)\n}\n",
	"imp.go":     "package a\n\nimport (\n\t\"old/p\"\n\t\"os\"\n)\n\nfunc I() {\n\tp.F1()\n\tf1(os.Args)\n}\n",
}

// which markers make which change apply
func c12Applies(change string, src string) bool {
	if !strings.Contains(change, "DESCTOKEN") {
		return false // only used to decide which descriptions may be reported
	}
	switch {
	case strings.Contains(change, "-F\n+pkg.F"):
		return false // every site is a name-only slot: the change applies to no file
	case strings.Contains(change, "-swap(a, b)"):
		return strings.Contains(src, "swap(")
	case strings.Contains(change, "-veryLongFunctionName(x)"):
		return strings.Contains(src, "veryLongFunctionName(")
	case strings.Contains(change, "-f1(x)"):
		return strings.Contains(src, "f1(")
	case strings.Contains(change, "-f2(x)"):
		return strings.Contains(src, "f2(")
	case strings.Contains(change, "-p.F1()"):
		return strings.Contains(src, "p.F1()") && strings.Contains(src, "\"old/p\"")
	case strings.Contains(change, "-v := f1(1)"):
		return strings.Contains(src, ":= f1(1)")
	case strings.Contains(change, "-func n() int {"):
		return strings.Contains(src, "() int {") // the file catalogue has no differently spaced `() int {`
	case strings.Contains(change, "-g1(x)"):
		return strings.Contains(src, "f1(") || strings.Contains(src, "g1(")
	}
	panic("unknown change: " + change)
}

func c12Gen(tier string, emit func(any)) {
	// a file of the run does not parse (real binary: the exit path of runMain is part of what is observed)
	for _, p := range c12Patches() {
		if len(p.files) != 1 || (p.id != "A" && p.id != "A+B" && p.id != "stmt-elision") {
			continue
		}
		for _, others := range [][]string{{"m1.go"}, {"m1.go", "m2.go"}, {"n.go", "m2.go"}, {"zlast.go"}} {
			files := map[string]string{"broken.go": "package a\n\nfunc broken( {\n"}
			for _, n := range others {
				if n == "zlast.go" {
					files[n] = c12Sources["m1.go"]
				} else {
					files[n] = c12Sources[n]
				}
			}
			for _, v := range []bool{false, true} {
				emit(&C12Case{PatchID: p.id, Patches: p.files, Files: files, Args: "dot", V: v})
			}
		}
	}
	// the dry-run modes with a stderr that cannot be written to (descriptions go there)
	for _, p := range c12Patches() {
		if len(p.files) != 1 || (p.id != "A" && p.id != "A+B" && p.id != "stmt-elision" && p.id != "noop-swap+A") {
			continue
		}
		for _, names := range [][]string{{"m1.go"}, {"m1.go", "m2.go"}, {"n.go", "m2.go", "m1.go"}} {
			files := map[string]string{}
			for _, n := range names {
				files[n] = c12Sources[n]
			}
			emit(&C12Case{PatchID: p.id, Patches: p.files, Files: files, Args: "dot", Env: "stderr-full"})
		}
	}
	for _, p := range c12LayoutPatches(tier) {
		for mask := 1; mask < 8; mask++ {
			if mask > 4 && mask != 7 {
				continue
			}
			files := map[string]string{}
			for i, n := range []string{"run.go", "two.go", "inline.go"} {
				if mask&(1<<i) != 0 {
					files[n] = c12LayoutSources[n]
				}
			}
			emit(&C12Case{PatchID: p.id, Patches: p.files, Files: files, Args: "dot"})
		}
	}
	for _, p := range c12Patches() {
		for si, set := range c12FileSets() {
			if si != 0 && si != 5 && (si == 4) != strings.HasPrefix(p.id, "shrink") && !(si == 4 && p.id == "A") {
				continue // the hard-linked set goes with the shrinking patch sets (and with A)
			}
			for mask := 1; mask < 1<<len(set); mask++ {
				files := map[string]string{}
				for i, n := range set {
					if mask&(1<<i) != 0 {
						files[n] = c12Sources[n]
					}
				}
				for b := 0; b < 8; b++ {
					for _, a := range []string{"dot", "dot+abs", "dot+dir"} {
						if a != "dot" && b != 0 && b != 5 {
							continue // overlapping argument forms: with two of the eight flag triples
						}
						emit(&C12Case{PatchID: p.id, Patches: p.files, Files: files, Args: a, SIP: b&1 != 0, SG: b&2 != 0, V: b&4 != 0})
					}
				}
			}
		}
	}
}

// splitChanges cuts a patch file into its changes (with their leading # lines).
func c12SplitChanges(p string) []string {
	var out []string
	var cur []string
	lines := strings.SplitAfter(p, "\n")
	headers := 0
	flush := func() {
		if len(cur) > 0 {
			out = append(out, strings.Join(cur, ""))
			cur = nil
		}
		headers = 0
	}
	var pending []string // comment/blank lines that may belong to the next change
	for _, ln := range lines {
		t := strings.TrimSpace(ln)
		isHeader := strings.HasPrefix(t, "@")
		if isHeader && headers >= 2 {
			flush()
			cur = append(cur, pending...)
			pending = nil
		}
		if isHeader {
			if headers == 0 {
				cur = append(cur, pending...)
				pending = nil
			}
			headers++
			cur = append(cur, ln)
			continue
		}
		if headers >= 2 && (strings.HasPrefix(t, "#") || t == "") {
			pending = append(pending, ln)
			continue
		}
		if headers == 0 {
			pending = append(pending, ln)
			continue
		}
		cur = append(cur, pending...)
		pending = nil
		cur = append(cur, ln)
	}
	flush()
	return out
}

// c12RunBroken: one of the files does not parse, so every mode exits non-zero; what the real binary prints for the
// healthy files with --print-only must still be exactly what the default mode writes for them.
func c12RunBroken(env *core.Env, c *C12Case) core.Outcome {
	out := core.Outcome{Nontrivial: true, Class: "broken-file", Transitions: 2}
	bad := func(key, f string, a ...any) core.Outcome {
		out.Violation = fmt.Sprintf("[patch %s, files with broken.go, v=%v] ", c.PatchID, c.V) + fmt.Sprintf(f, a...)
		out.FindingKey = key
		return out
	}
	var names []string
	for n := range c.Files {
		names = append(names, n)
	}
	sort.Strings(names)
	do := func(mode ...string) (drive.Result, map[string]string) {
		tree := map[string]string{"p0.patch": c.Patches[0]}
		for n, s := range c.Files {
			tree["t/"+n] = s
		}
		sb := newSandbox(env, "c12b", tree)
		defer sb.remove()
		args := append([]string{"-p", sb.path("p0.patch")}, mode...)
		if c.V {
			args = append(args, "-v")
		}
		r := sb.run(true, "t", append(args, "."), "")
		r.Stdout = strings.ReplaceAll(r.Stdout, sb.Root, "$ROOT")
		content := map[string]string{}
		for _, n := range names {
			content[n] = sb.read("t/" + n)
		}
		return r, content
	}
	w, W := do()
	if w.Exit == 0 {
		return bad("exit", "a file does not parse but the default mode exits 0")
	}
	p, P := do("--print-only")
	if p.Exit == 0 {
		return bad("exit", "a file does not parse but --print-only exits 0")
	}
	rest := p.Stdout
	for _, n := range names {
		if P[n] != c.Files[n] {
			return bad("dryrun-wrote/print", "--print-only modified %s", n)
		}
		if n == "broken.go" {
			continue
		}
		if !strings.HasPrefix(rest, W[n]) {
			return bad("print-differs", "--print-only output for %s differs from the bytes written by the default mode (a file of the run does not parse):\n got %q\nwant %q", n, rest, W[n])
		}
		rest = rest[len(W[n]):]
		if c.V {
			var ok bool
			if rest, ok = cutLogLine(rest, "$ROOT/t/"+n); !ok {
				return bad("print-differs", "--print-only -v: expected a log line about %s, remaining output %q", n, rest)
			}
		}
	}
	if strings.TrimSpace(rest) != "" && !c.V {
		return bad("print-differs", "--print-only printed more than the healthy files' bytes: %q", rest)
	}
	return out
}

func c12Run(env *core.Env, ci any) core.Outcome {
	c := ci.(*C12Case)
	if _, ok := c.Files["broken.go"]; ok {
		return c12RunBroken(env, c)
	}
	names := make([]string, 0, len(c.Files))
	for n := range c.Files {
		names = append(names, n)
	}
	sort.Strings(names)
	flagKey := fmt.Sprintf("args=%s sip=%v sg=%v v=%v", c.Args, c.SIP, c.SG, c.V)

	judge := func(real bool) core.Outcome {
		out := core.Outcome{Transitions: 4, Class: "agree"}
		bad := func(key, f string, a ...any) core.Outcome {
			out.Violation = fmt.Sprintf("[patch %s, files %v, %s] ", c.PatchID, names, flagKey) + fmt.Sprintf(f, a...)
			out.FindingKey = key
			return out
		}
		type obs struct {
			r        drive.Result
			snapDiff string
			content  map[string]string
			modes    map[string]os.FileMode
		}
		do := func(mode ...string) obs {
			tree := map[string]string{}
			for n, s := range c.Files {
				tree["t/"+n] = s
			}
			for i, p := range c.Patches {
				tree[fmt.Sprintf("p%d.patch", i)] = p
			}
			// bystanders that no mode may create, modify or remove: a non-Go file, an editor backup, a
			// temporary file as an interrupted earlier run would leave it, files in pruned directories
			tree["t/notes.txt"] = "f1(1)\n"
			tree["t/m1.go~"] = "package a\n"
			tree["t/.m1.go.gopatch-12345.tmp"] = "package a\n\nfunc F() { f1(1) }\n"
			tree["t/testdata/t.go"] = "package a\n\nfunc T() { f1(1) }\n"
			tree["t/_skip/s.go"] = "package a\n\nfunc S() { f2(1) }\n"
			sb := newSandbox(env, "c12", tree)
			defer sb.remove()
			for _, n := range names {
				if strings.HasPrefix(n, "hl") {
					if err := os.Link(sb.path("t/"+n), sb.path("link-of-"+n)); err != nil {
						panic("harness: " + err.Error())
					}
				}
			}
			// permission bits that differ from the default: they survive a rewrite
			for n, m := range c12Modes {
				if _, ok := c.Files[n]; ok {
					if err := os.Chmod(sb.path("t/"+n), m); err != nil {
						panic("harness: " + err.Error())
					}
				}
			}
			before := sb.snap("")
			var args []string
			for i := range c.Patches {
				args = append(args, "-p", sb.path(fmt.Sprintf("p%d.patch", i)))
			}
			args = append(args, mode...)
			if c.SIP {
				args = append(args, "--skip-import-processing")
			}
			if c.SG {
				args = append(args, "--skip-generated")
			}
			if c.V {
				args = append(args, "-v")
			}
			args = append(args, ".")
			switch c.Args {
			case "dot+abs":
				args = append(args, sb.path("t/"+names[0]))
			case "dot+dir":
				args = append(args, "./...", sb.path("t"))
			}
			r := sb.run(real, "t", args, "")
			if c.Env == "stderr-full" && len(mode) > 0 {
				sh := append([]string{"-c", `exec "$0" "$@" 2>/dev/full`, filepath.Join(env.BinDir, "gopatch.real")}, args...)
				r = drive.RunReal("sh", sb.path("t"), sh, "")
				if r.Exit != 0 && r.Stdout != "" {
					r.Exit = 0 // the descriptions could not be written: that may be reported, the output stands
				}
			}
			r.Stdout = strings.ReplaceAll(r.Stdout, sb.Root, "$ROOT")
			r.Stderr = strings.ReplaceAll(r.Stderr, sb.Root, "$ROOT")
			o := obs{r: r, snapDiff: before.Diff(sb.snap(""), false), content: map[string]string{}, modes: map[string]os.FileMode{}}
			for _, n := range names {
				o.content[n] = sb.read("t/" + n)
				if st, err := os.Stat(sb.path("t/" + n)); err == nil {
					o.modes[n] = st.Mode().Perm()
				}
			}
			return o
		}
		w := do()
		if w.r.Panic != "" {
			return bad("panic", "gopatch crashed: %s", w.r.Panic)
		}
		if w.r.Exit != 0 && strings.Contains(w.r.Stderr, "load patch") {
			// the default mode rejects the patch: so must the dry-run modes and the library, without output or effect
			if w.snapDiff != "" {
				return bad("rejected-but-wrote", "the patch is rejected (%s) but the tree changed:\n%s", firstWords(w.r.Stderr, 8), w.snapDiff)
			}
			for _, mode := range [][]string{{"--print-only"}, {"--diff"}, {"--diff", "--print-only"}} {
				m := do(mode...)
				if m.r.Panic != "" {
					return bad("panic", "gopatch crashed: %s", m.r.Panic)
				}
				if m.r.Exit == 0 || m.r.Stdout != "" || m.snapDiff != "" {
					return bad("reject-disagrees", "the default mode rejects the patch (%s) but %v exits %d with stdout %q, tree changes %q", firstWords(w.r.Stderr, 8), mode, m.r.Exit, m.r.Stdout, m.snapDiff)
				}
			}
			if len(c.Patches) == 1 {
				if _, err := patch.Parse("p0.patch", []byte(c.Patches[0])); err == nil {
					return bad("reject-disagrees", "the CLI rejects the patch (%s) but patch.Parse accepts it", firstWords(w.r.Stderr, 8))
				}
			}
			out.Class, out.Nontrivial = "reject-agree", true
			return out
		}
		if w.r.Exit != 0 {
			return core.Outcome{Skip: "default mode failed: " + firstWords(w.r.Stderr, 8)}
		}
		// the default mode keeps the permission bits of the files it rewrites
		for n, m := range c12Modes {
			if _, ok := c.Files[n]; ok && !strings.Contains(w.snapDiff, "harness") {
				if got := w.modes[n]; got != m {
					return bad("mode-changed", "the default mode changed the permission bits of %s: %v, was %v", n, got, m)
				}
			}
		}
		// expectations derived from the default-mode run (ground truth W)
		W := w.content
		rewritten := 0
		skippedGen := map[string]bool{}
		for _, n := range names {
			if W[n] != c.Files[n] {
				rewritten++
			}
			if c.SG && n == "gen.go" {
				skippedGen[n] = true
			}
		}
		out.Nontrivial = rewritten > 0
		if strings.Contains(w.r.Stdout, "DESCTOKEN") {
			return bad("desc-on-stdout", "default mode: description on stdout: %q", w.r.Stdout)
		}
		// which files may carry which description lines
		allowedDesc := map[string]map[string]bool{}
		var changes []string
		for _, p := range c.Patches {
			changes = append(changes, c12SplitChanges(p)...)
		}
		for _, n := range names {
			allowedDesc[n] = map[string]bool{}
			if skippedGen[n] {
				continue
			}
			for _, ch := range changes {
				if !c12Applies(ch, c.Files[n]) {
					continue
				}
				for _, ln := range strings.Split(ch, "\n") {
					if strings.HasPrefix(ln, "# DESCTOKEN") {
						allowedDesc[n][strings.TrimSpace(ln[1:])] = true
					}
				}
			}
		}
		checkStderr := func(mode, stderr string) *core.Outcome {
			for _, ln := range strings.Split(strings.TrimSuffix(stderr, "\n"), "\n") {
				if ln == "" {
					continue
				}
				i := strings.Index(ln, ":")
				if i < 0 || !strings.Contains(ln, "DESCTOKEN") {
					o := bad("stderr-unexpected", "%s: unexpected stderr line %q", mode, ln)
					return &o
				}
				file, desc := strings.TrimPrefix(ln[:i], "$ROOT/t/"), ln[i+1:]
				if !allowedDesc[file][desc] {
					if c.PatchID == "inadmissible-only" {
						o := bad("desc-although-every-site-was-inadmissible", "%s: the description %q is reported for %q although the change left every site of that file unchanged (the replacement cannot stand in a name-only slot)", mode, desc, file)
						return &o
					}
					o := bad("desc-for-wrong-file", "%s: description %q reported for %q, to which no change with that description applied", mode, desc, file)
					return &o
				}
			}
			return nil
		}
		if o := checkStderr("default", w.r.Stderr); o != nil {
			return *o
		}
		// --print-only
		p := do("--print-only")
		if p.r.Panic != "" {
			return bad("panic", "gopatch crashed: %s", p.r.Panic)
		}
		if p.snapDiff != "" {
			return bad("dryrun-wrote/print", "--print-only changed the tree:\n%s", p.snapDiff)
		}
		if p.r.Exit != 0 {
			return bad("print-exit", "--print-only exit %d although the default mode succeeded; stderr %q", p.r.Exit, p.r.Stderr)
		}
		// stdout = for each file in path order: its bytes as the default mode writes them (nothing for a
		// skipped generated file), followed, with -v, by one log line about it (wording is free)
		rest := p.r.Stdout
		for _, n := range names {
			if !skippedGen[n] {
				if !strings.HasPrefix(rest, W[n]) {
					return bad("print-differs", "--print-only output for %s differs from the bytes written by the default mode:\n got %q\nwant %q", n, rest, W[n])
				}
				rest = rest[len(W[n]):]
			}
			if c.V {
				var ok bool
				if rest, ok = cutLogLine(rest, "$ROOT/t/"+n); !ok {
					return bad("print-differs", "--print-only -v: expected a log line about %s, remaining output %q", n, rest)
				}
			}
		}
		if rest != "" {
			return bad("print-differs", "--print-only printed more than the files' bytes: %q", rest)
		}
		if o := checkStderr("--print-only", p.r.Stderr); o != nil {
			return *o
		}

		// --diff
		d := do("--diff")
		if d.r.Panic != "" {
			return bad("panic", "gopatch crashed: %s", d.r.Panic)
		}
		if d.snapDiff != "" {
			return bad("dryrun-wrote/diff", "--diff changed the tree:\n%s", d.snapDiff)
		}
		if d.r.Exit != 0 {
			return bad("diff-exit", "--diff exit %d although the default mode succeeded; stderr %q", d.r.Exit, d.r.Stderr)
		}
		diffs, other, err := drive.SplitUnified(d.r.Stdout)
		if err != nil {
			return bad("diff-malformed", "--diff output is not a well-formed unified diff: %v\n%q", err, d.r.Stdout)
		}
		byFile := map[string]*drive.FileDiff{}
		for _, fd := range diffs {
			// a file also named by its absolute path is reported under that spelling
			fd.Old = strings.TrimPrefix(fd.Old, "$ROOT/t/")
			fd.New = strings.TrimPrefix(fd.New, "$ROOT/t/")
			if _, ok := c.Files[fd.Old]; !ok || fd.Old != fd.New {
				return bad("diff-unknown-file", "--diff names an unknown file: %q / %q", fd.Old, fd.New)
			}
			if byFile[fd.Old] != nil {
				return bad("diff-twice", "--diff contains two diffs for %q", fd.Old)
			}
			byFile[fd.Old] = fd
		}
		for _, n := range names {
			got := c.Files[n]
			if fd := byFile[n]; fd != nil {
				var err error
				got, err = drive.ApplyUnified(c.Files[n], fd)
				if err != nil && strings.Contains(c.Files[n], "\r\n") {
					got, err = "<does not apply>", nil // classified below
				}
				if err != nil {
					return bad("diff-does-not-apply", "--diff output for %s does not apply to the original: %v\n%q", n, err, d.r.Stdout)
				}
			}
			if fd := byFile[n]; fd != nil && got != W[n] && strings.Contains(c.Files[n], "\r\n") {
				// does the diff describe the file with its carriage returns dropped?
				if g2, err := drive.ApplyUnified(strings.ReplaceAll(c.Files[n], "\r\n", "\n"), fd); err == nil && g2 == W[n] {
					return bad("diff-hides-crlf-conversion", "the --diff output for the CRLF file %s only applies to (and only yields the written bytes from) the original with its carriage returns removed: the CRLF->LF conversion performed by the default mode is not part of the diff\ndiff %q", n, d.r.Stdout)
				}
			}
			if got != W[n] {
				key := "diff-differs"
				if !strings.HasSuffix(c.Files[n], "\n") && got+"\n" == W[n] {
					key = "diff-missing-final-newline"
				}
				return bad(key, "applying the --diff output to %s gives bytes different from what the default mode writes:\n got %q\nwant %q\ndiff %q", n, got, W[n], d.r.Stdout)
			}
		}
		// lines that are not part of a diff: with -v exactly one log line per file, in path order
		rest = strings.Join(other, "")
		if c.V {
			for _, n := range names {
				var ok bool
				if rest, ok = cutLogLine(rest, "$ROOT/t/"+n); !ok {
					return bad("diff-extra-output", "--diff -v: expected a log line about %s, non-diff output is %q", n, strings.Join(other, ""))
				}
			}
		}
		if rest != "" {
			return bad("diff-extra-output", "--diff printed lines that are neither diff nor -v log: %q", rest)
		}
		if o := checkStderr("--diff", d.r.Stderr); o != nil {
			return *o
		}

		// both dry-run flags
		b := do("--diff", "--print-only")
		if b.r.Panic != "" {
			return bad("panic", "gopatch crashed: %s", b.r.Panic)
		}
		if b.snapDiff != "" {
			return bad("dryrun-wrote/diff+print", "--diff --print-only changed the tree:\n%s", b.snapDiff)
		}
		if o := checkStderr("--diff --print-only", b.r.Stderr); o != nil {
			return *o
		}

		// library API
		if !c.SIP && len(c.Patches) == 1 {
			pf, err := patch.Parse("p0.patch", []byte(c.Patches[0]))
			if err != nil {
				return bad("api-parse", "CLI accepted the patch but patch.Parse rejects it: %v", err)
			}
			for _, n := range names {
				if skippedGen[n] {
					continue
				}
				res, err := pf.Apply(n, []byte(c.Files[n]))
				if err != nil {
					return bad("api-error", "CLI succeeded on %s but Apply fails: %v", n, err)
				}
				if string(res) != W[n] {
					return bad("api-differs", "Apply result for %s differs from the bytes the CLI writes:\n api %q\n cli %q", n, res, W[n])
				}
			}
			out.Transitions += len(names)
		}
		return out
	}
	return believeIfReal(judge)
}

func c12AnyApplies(changes []string, src string) bool {
	for _, ch := range changes {
		if c12Applies(ch, src) {
			return true
		}
	}
	return false
}
