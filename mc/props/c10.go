package props

import (
	"bytes"
	"fmt"
	"strings"

	"github.com/uber-go/gopatch/patch"

	"verifmc/core"
)

// C10Case is one cell of the guard table.
type C10Case struct {
	PatchPkg  string   `json:"patch_pkg"`           // "", "a", "b" (file is package a)
	PkgLine   string   `json:"pkg_line"`            // "ctx" | "minus" (package clause on a context line or as -/+ pair)
	PatchImps []string `json:"patch_imps"`          // per guarded path: absent|unnamed|named|metavar|dot|blank
	FileImps  []string `json:"file_imps"`           // per guarded path: absent|unnamed|same|other|dot|blank
	Layout    string   `json:"layout"`              // alone|group|blocks
	ImpLine   string   `json:"imp_line"`            // ctx|minus
	Body      string   `json:"body"`                // expr|stmt|decl
	MetaClash string   `json:"meta_clash"`          // "", identifier, expression: a metavariable named like the patch's package clause is declared (and unused)
	Spelling  string   `json:"spelling,omitempty"`  // how the file spells the guarded paths: "" (interpreted string) | raw | escaped
	CLI       bool     `json:"cli,omitempty"`       // run through the command line (in place) instead of the library API
	Seq       string   `json:"seq,omitempty"`       // two-change cases: what the earlier change does to the guarded clause
	Name0     string   `json:"name0"`               // literal name used for path 0 on the patch side (different from / equal to the path's base name)
	FileName  string   `json:"file_name,omitempty"` // name of the target file ("" = a.go)
	Patch     string   `json:"patch"`
	File      string   `json:"file"`
	Expect    bool     `json:"expect_applies"`
}

var c10Paths = []string{"fmt", "x/y"}

func (c *C10Case) name(i int) string {
	if i == 0 {
		return c.Name0
	}
	return "y" // equals the last element of the path x/y on purpose
}

func init() {
	core.Register(&core.Property{
		ID:    "C10",
		Level: "model_checking",
		Rule: "complete guard table: patch package clause {absent,same,other} x line kind x for each of 2 paths patch-side form {absent,unnamed,named,metavariable,dot,blank} x file-side form {absent,unnamed,same name,other name,dot,blank} x import layout {alone,group,two blocks} x import on context/minus line x body kind {expression, statement, declaration, one expression -> several statements, statements -> one expression}; the reference table is transcribed from the statement; a slice of the table with the file spelling the guarded paths as raw and as escaped string literals; a slice of the table through the command line; 38 two-change patches (API and command line) in which an earlier (later) change establishes or destroys what the guarded change needs (package renamed, import added / dropped / replaced / named), guard evaluated when the change's turn comes; every file contains the code pattern; " +
			"non-trivial = at least one guard present on the patch side",
		Assumptions: []string{"a path imported twice under different names in one file is not a row of the stated table and is not generated"},
		Bounds: func(tier string) map[string]any {
			return map[string]any{"paths": 2, "bodies": c10Bodies(tier)}
		},
		NewCase: func() any { return &C10Case{} },
		Gen:     c10Gen,
		Setup:   cliSetup,
		Run:     c10Run,
	})
}

func c10Bodies(tier string) []string {
	return []string{"expr", "stmt", "decl", "expr-to-stmts", "stmts-to-expr"}
}

func c10ImportSpec(form, name, path string) string {
	switch form {
	case "unnamed":
		return fmt.Sprintf("%q", path)
	case "named", "same":
		return fmt.Sprintf("%s %q", name, path)
	case "other":
		return fmt.Sprintf("zz%s %q", name, path)
	case "metavar":
		return fmt.Sprintf("mv%s %q", name, path)
	case "dot":
		return fmt.Sprintf(". %q", path)
	case "blank":
		return fmt.Sprintf("_ %q", path)
	}
	return ""
}

// c10Guard is the reference table, transcribed from the statement.
func c10Guard(patchForm, fileForm string) bool {
	switch patchForm {
	case "absent":
		return true
	case "unnamed": // an unnamed import matches only an unnamed import
		return fileForm == "unnamed"
	case "named": // a literally named import only that exact name
		return fileForm == "same"
	case "dot":
		return fileForm == "dot"
	case "blank":
		return fileForm == "blank"
	case "metavar": // matches any name or none (the import must be there)
		return fileForm != "absent"
	}
	panic(patchForm)
}

func c10Gen(tier string, emit func(any)) {
	c10SeqCases(emit)
	patchForms := []string{"absent", "unnamed", "named", "metavar", "dot", "blank"}
	fileForms := []string{"absent", "unnamed", "same", "other", "dot", "blank"}
	for _, body := range c10Bodies(tier) {
		for _, pkg := range []string{"", "a", "b"} {
			for _, pkgLine := range []string{"ctx", "minus"} {
				if pkg == "" && pkgLine == "minus" {
					continue
				}
				for _, impLine := range []string{"ctx", "minus"} {
					for _, layout := range []string{"alone", "group", "blocks"} {
						if body != "expr" && tier != "thorough" && (layout != "alone" || pkgLine != "ctx") {
							continue // quick: the other body kinds on a slice of the table
						}
						for _, clash := range []string{"", "identifier", "expression"} {
							if clash != "" && (pkg == "" || impLine == "minus" || layout != "alone") {
								continue
							}
							for _, name0 := range []string{"f", "fmt"} {
								if name0 == "fmt" && (pkg != "" || layout == "blocks") {
									continue
								}
								for _, p0 := range patchForms {
									for _, p1 := range patchForms {
										if impLine == "minus" && p0 == "absent" && p1 == "absent" {
											continue
										}
										for _, f0 := range fileForms {
											for _, f1 := range fileForms {
												c := &C10Case{PatchPkg: pkg, PkgLine: pkgLine, PatchImps: []string{p0, p1}, FileImps: []string{f0, f1}, Layout: layout, ImpLine: impLine, Body: body, MetaClash: clash, Name0: name0}
												c10Render(c)
												emit(c)
												if clash == "" && name0 == "f" && layout == "group" && pkgLine == "ctx" {
													c3 := *c
													c3.CLI = true
													emit(&c3)
												}
												if pkg == "" && clash == "" && name0 == "f" && layout != "blocks" {
													// the same cell with the file spelling the paths as raw / escaped string literals
													for _, sp := range []string{"raw", "escaped"} {
														c2 := *c
														c2.Spelling = sp
														c10Render(&c2)
														emit(&c2)
													}
												}
											}
										}
									}
								}
							}
						}
					}
				}
			}
		}
	}
}

// c10SeqCases: a guard is evaluated when the change's turn comes, on the file as the earlier changes of the
// same patch left it (an earlier change establishes or destroys what the later change's guard needs).
func c10SeqCases(emit func(any)) {
	file := func(pkg string, imports ...string) string {
		s := "package " + pkg + "\n\n"
		for _, im := range imports {
			s += "import " + im + "\n"
		}
		return s + "\nvar v = foo(1)\n\nfunc g() {\n\tprefoo(1)\n\tfmt.Pre(1)\n}\n"
	}
	main := func(guard string) string {
		if strings.HasPrefix(guard, "METAVAR") { // the name of the guarded import is an identifier metavariable in this change
			return "@@\nvar yy identifier\n@@\n" + strings.TrimPrefix(guard, "METAVAR") + "\n-foo(1)\n+mark(1)\n"
		}
		return "@@\n@@\n" + guard + "\n-foo(1)\n+mark(1)\n"
	}
	type sc struct {
		id, pre, guard, file string
		expect               bool
	}
	renamePkg := "@@\n@@\n-package a\n+package b\n\n-prefoo(1)\n+predone(1)\n"
	addImp := "@@\n@@\n+import \"x/y\"\n\n-prefoo(1)\n+y.Pre(1)\n"
	addNamed := "@@\n@@\n+import yy \"x/y\"\n\n-prefoo(1)\n+yy.Pre(1)\n"
	dropImp := "@@\n@@\n-import \"fmt\"\n\n-fmt.Pre(1)\n+pre(1)\n"
	replImp := "@@\n@@\n-import \"fmt\"\n+import \"x/y\"\n\n-fmt.Pre(1)\n+y.Pre(1)\n"
	nameImp := "@@\n@@\n-import \"fmt\"\n+import ff \"fmt\"\n\n-fmt.Pre(1)\n+ff.Pre(1)\n"
	noop := "@@\n@@\n-nothing(1)\n+nothing(2)\n"
	mvGuard := "@@\nvar yy identifier\n@@\n import yy \"x/y\"\n\n-prefoo(1)\n+predone(1)\n"
	litGuard := "@@\n@@\n import yy \"x/y\"\n\n-prefoo(1)\n+predone(1)\n"
	cases := []sc{
		{"pkg-renamed/new-name", renamePkg, " package b", file("a", `"fmt"`), true},
		{"pkg-renamed/old-name", renamePkg, " package a", file("a", `"fmt"`), false},
		{"pkg-renamed/minus-line", renamePkg, "-package b\n+package c", file("a", `"fmt"`), true},
		{"import-added/unnamed", addImp, " import \"x/y\"", file("a", `"fmt"`), true},
		{"import-added/unnamed-first-import", addImp, " import \"x/y\"", "package a\n\nvar v = foo(1)\n\nfunc g() {\n\tprefoo(1)\n}\n", true},
		{"import-added/guard-wants-name", addImp, " import yy \"x/y\"", file("a", `"fmt"`), false},
		{"import-added-named/named", addNamed, " import yy \"x/y\"", file("a", `"fmt"`), true},
		{"import-added-named/unnamed", addNamed, " import \"x/y\"", file("a", `"fmt"`), false},
		{"import-dropped", dropImp, " import \"fmt\"", file("a", `"fmt"`), false},
		{"import-replaced/old", replImp, " import \"fmt\"", file("a", `"fmt"`), false},
		{"import-replaced/new", replImp, " import \"x/y\"", file("a", `"fmt"`), true},
		{"import-named/unnamed-guard", nameImp, " import \"fmt\"", file("a", `"fmt"`), false},
		{"import-named/named-guard", nameImp, " import ff \"fmt\"", file("a", `"fmt"`), true},
		{"same-import-metavar-then-literal/other-name", mvGuard, " import yy \"x/y\"", file("a", `"fmt"`, `zz "x/y"`) + "\nvar _ = zz.V\n", false},
		{"same-import-metavar-then-literal/same-name", mvGuard, " import yy \"x/y\"", file("a", `"fmt"`, `yy "x/y"`) + "\nvar _ = yy.V\n", true},
		{"same-import-literal-then-metavar/other-name", litGuard, "METAVAR import yy \"x/y\"", file("a", `"fmt"`, `zz "x/y"`) + "\nvar _ = zz.V\n", true},
		{"same-import-literal-then-metavar/unnamed", litGuard, "METAVAR import yy \"x/y\"", file("a", `"fmt"`, `"x/y"`) + "\nvar _ = y.V\n", true},
		{"noop-before/holds", noop, " import \"fmt\"", file("a", `"fmt"`), true},
		{"noop-before/fails", noop, " package b", file("a", `"fmt"`), false},
	}
	// single changes: the file's name does not enter the package guard; the order in which the patch lists its
	// imports need not be the file's
	type one struct {
		id, guard, file, name string
		expect                bool
	}
	ones := []one{
		{"file-name/external-test-package-vs-base-guard", " package a", file("a_test", `"fmt"`), "a_test.go", false},
		{"file-name/external-test-package-vs-its-guard", " package a_test", file("a_test", `"fmt"`), "a_test.go", true},
		{"file-name/internal-test-file", " package a", file("a", `"fmt"`), "a_test.go", true},
		{"file-name/test-package-in-ordinary-file", " package a_test", file("a_test", `"fmt"`), "extern.go", true},
		{"file-name/main-go", " package a", file("a", `"fmt"`), "main.go", true},
	}
	paths := []string{`"fmt"`, `"os"`, `"strings"`}
	for _, perm := range [][]int{{0, 1, 2}, {0, 2, 1}, {1, 0, 2}, {1, 2, 0}, {2, 0, 1}, {2, 1, 0}} {
		var single, grouped string
		for _, i := range perm {
			single += " import " + paths[i] + "\n"
			grouped += "   " + paths[i] + "\n"
		}
		id := fmt.Sprintf("import-order/%v", perm)
		ones = append(ones, one{id + "/single", strings.TrimSuffix(single, "\n"), file("a", paths...), "", true})
		ones = append(ones, one{id + "/grouped", " import (\n" + grouped + " )", file("a", paths...), "", true})
		ones = append(ones, one{id + "/one-missing", strings.TrimSuffix(single, "\n"), file("a", paths[0], paths[2]), "", false})
	}
	for _, c := range ones {
		for _, cli := range []bool{false, true} {
			id := c.id
			if cli {
				id += "/cli"
			}
			emit(&C10Case{Seq: id, CLI: cli, PatchImps: []string{"absent", "absent"}, FileImps: []string{"absent", "absent"}, Patch: main(c.guard), File: c.file, FileName: c.name, Expect: c.expect})
		}
	}
	for _, c := range cases {
		for _, packaging := range []string{"one-file"} {
			_ = packaging
			emit(&C10Case{Seq: c.id + "/cli", CLI: true, PatchImps: []string{"absent", "absent"}, FileImps: []string{"absent", "absent"}, Patch: c.pre + "\n" + main(c.guard), File: c.file, Expect: c.expect})
			emit(&C10Case{Seq: c.id + "/guarded-first/cli", CLI: true, PatchImps: []string{"absent", "absent"}, FileImps: []string{"absent", "absent"}, Patch: main(c.guard) + "\n" + c.pre, File: c.file, Expect: c10GuardedFirst[c.id]})
			emit(&C10Case{Seq: c.id, PatchImps: []string{"absent", "absent"}, FileImps: []string{"absent", "absent"}, Patch: c.pre + "\n" + main(c.guard), File: c.file, Expect: c.expect})
			// the guarded change first: the later change must not matter for its guard
			emit(&C10Case{Seq: c.id + "/guarded-first", PatchImps: []string{"absent", "absent"}, FileImps: []string{"absent", "absent"}, Patch: main(c.guard) + "\n" + c.pre, File: c.file, Expect: c10GuardedFirst[c.id]})
		}
	}
}

// expectation when the guarded change comes first: its guard is evaluated on the original file
var c10GuardedFirst = map[string]bool{
	"pkg-renamed/new-name": false, "pkg-renamed/old-name": true, "pkg-renamed/minus-line": false,
	"import-added/unnamed": false, "import-added/unnamed-first-import": false, "import-added/guard-wants-name": false,
	"import-added-named/named": false, "import-added-named/unnamed": false,
	"import-dropped": true, "import-replaced/old": true, "import-replaced/new": false,
	"import-named/unnamed-guard": true, "import-named/named-guard": false,
	"noop-before/holds": true, "noop-before/fails": false,
	"same-import-metavar-then-literal/other-name": false, "same-import-metavar-then-literal/same-name": true,
	"same-import-literal-then-metavar/other-name": true, "same-import-literal-then-metavar/unnamed": true,
}

func c10Render(c *C10Case) {
	var p strings.Builder
	p.WriteString("@@\n")
	for i, f := range c.PatchImps {
		if f == "metavar" {
			fmt.Fprintf(&p, "var mv%s identifier\n", c.name(i))
		}
	}
	if c.MetaClash != "" {
		fmt.Fprintf(&p, "var %s %s\n", c.PatchPkg, c.MetaClash)
	}
	p.WriteString("@@\n")
	if c.PatchPkg != "" {
		if c.PkgLine == "ctx" {
			fmt.Fprintf(&p, " package %s\n", c.PatchPkg)
		} else {
			fmt.Fprintf(&p, "-package %s\n+package %s\n", c.PatchPkg, c.PatchPkg)
		}
		p.WriteString("\n")
	}
	for i, f := range c.PatchImps {
		if f == "absent" {
			continue
		}
		spec := c10ImportSpec(f, c.name(i), c10Paths[i])
		if c.ImpLine == "ctx" {
			fmt.Fprintf(&p, " import %s\n", spec)
		} else {
			fmt.Fprintf(&p, "-import %s\n+import %s\n", spec, spec)
		}
	}
	switch c.Body {
	case "expr":
		p.WriteString("-foo(1)\n+mark(1)\n")
	case "stmt":
		p.WriteString("-x := foo(1)\n+x := mark(1)\n")
	case "decl":
		p.WriteString("-var v = foo(1)\n+var v = mark(1)\n")
	case "expr-to-stmts": // '-' is one expression, '+' several statements: the two sides are reconciled by the parser
		p.WriteString("-foo(1)\n+mark(1)\n+more()\n")
	case "stmts-to-expr":
		p.WriteString("-x := foo(1)\n-_ = x\n+mark(1)\n")
	}
	c.Patch = p.String()

	var specs []string
	for i, f := range c.FileImps {
		if f != "absent" {
			sp := c10ImportSpec(f, c.name(i), c10Paths[i])
			switch c.Spelling {
			case "raw":
				sp = strings.ReplaceAll(sp, "\"", "`")
			case "escaped": // the same path with its second byte written as an escape
				q := fmt.Sprintf("%q", c10Paths[i])
				sp = strings.Replace(sp, q, fmt.Sprintf("\"%c\\x%02x%s\"", c10Paths[i][0], c10Paths[i][1], c10Paths[i][2:]), 1)
			}
			specs = append(specs, sp)
		}
	}
	var s strings.Builder
	s.WriteString("package a\n\n")
	switch c.Layout {
	case "alone":
		for _, sp := range specs {
			fmt.Fprintf(&s, "import %s\n", sp)
		}
	case "group":
		s.WriteString("import (\n\t\"os\"\n")
		for _, sp := range specs {
			fmt.Fprintf(&s, "\t%s\n", sp)
		}
		s.WriteString("\tq \"q/r\"\n)\n")
	case "blocks":
		s.WriteString("import \"os\"\n\nimport (\n")
		for _, sp := range specs {
			fmt.Fprintf(&s, "\t%s\n", sp)
		}
		s.WriteString(")\n")
	}
	s.WriteString("\nvar v = foo(1)\n\nfunc g() {\n\tx := foo(1)\n\t_ = x\n\tfoo(1)\n\tos.Exit(0)\n}\n")
	c.File = s.String()

	ok := c.PatchPkg == "" || c.PatchPkg == "a"
	for i := range c.PatchImps {
		ok = ok && c10Guard(c.PatchImps[i], c.FileImps[i])
	}
	c.Expect = ok
}

func c10Run(env *core.Env, ci any) core.Outcome {
	c := ci.(*C10Case)
	out := core.Outcome{}
	guards := 0
	if c.PatchPkg != "" {
		guards++
	}
	for _, f := range c.PatchImps {
		if f != "absent" {
			guards++
		}
	}
	out.Nontrivial = guards > 0 || c.Seq != ""
	pf, err := patch.Parse("g.patch", []byte(c.Patch))
	if err != nil {
		return core.Outcome{Skip: "patch rejected: " + firstWords(err.Error(), 6)}
	}
	fname := "a.go"
	if c.FileName != "" {
		fname = c.FileName
	}
	res, err := pf.Apply(fname, []byte(c.File))
	if c.CLI {
		sb := newSandbox(env, "c10", map[string]string{"t/" + fname: c.File, "g.patch": c.Patch})
		r := sb.run(false, "t", []string{"-p", sb.path("g.patch"), fname}, "")
		res, err = []byte(sb.read("t/"+fname)), nil
		if r.Exit != 0 || r.Panic != "" {
			err = fmt.Errorf("exit %d: %s %s", r.Exit, r.Stderr, r.Panic)
		}
		sb.remove()
	}
	if c.Seq != "" {
		applied := bytes.Contains(res, []byte("mark(1)"))
		out.Class = fmt.Sprintf("seq expect=%v applied=%v", c.Expect, applied)
		if err != nil {
			out.Violation = fmt.Sprintf("Apply failed in two-change case %s: %v\n--- patch:\n%s--- file:\n%s", c.Seq, err, c.Patch, c.File)
			out.FindingKey = "apply-error"
		} else if applied != c.Expect {
			out.Violation = fmt.Sprintf("two-change case %s: the guarded change applied=%v, expected %v (guards are evaluated on the file as the earlier changes left it)\n--- patch:\n%s--- file:\n%s--- output:\n%s", c.Seq, applied, c.Expect, c.Patch, c.File, res)
			out.FindingKey = "guard-evaluated-on-wrong-state:" + strings.SplitN(c.Seq, "/", 2)[0]
		}
		return out
	}
	cell := fmt.Sprintf("pkg=%s/%s clash=%s imps=%v(%s,name0=%s) file=%v", c.PatchPkg, c.PkgLine, c.MetaClash, c.PatchImps, c.ImpLine, c.Name0, c.FileImps)
	if err != nil {
		out.Violation = fmt.Sprintf("Apply failed in cell %s: %v", cell, err)
		out.FindingKey = "apply-error"
		return out
	}
	applied := bytes.Contains(res, []byte("mark(1)"))
	unchanged := bytes.Equal(res, []byte(c.File))
	out.Class = fmt.Sprintf("expect=%v applied=%v", c.Expect, applied)
	switch {
	case c.Expect && !applied:
		out.Violation = fmt.Sprintf("all guards hold but the change did not apply; cell %s", cell)
		out.FindingKey = "guard-too-strict:" + c10CellKey(c)
	case !c.Expect && applied:
		out.Violation = fmt.Sprintf("a guard fails but the change applied; cell %s", cell)
		out.FindingKey = "guard-too-lax:" + c10CellKey(c)
	case !c.Expect && !unchanged:
		out.Violation = fmt.Sprintf("a guard fails but the file was changed; cell %s\n%s", cell, res)
		out.FindingKey = "guard-fails-file-changed"
	}
	return out
}

// c10CellKey names the first failing/relevant (patch form, file form) pair.
func c10CellKey(c *C10Case) string {
	if c.PatchPkg == "b" {
		return "package"
	}
	for i := range c.PatchImps {
		want := c10Guard(c.PatchImps[i], c.FileImps[i])
		if !want || c.PatchImps[i] != "absent" {
			if !c.Expect && want {
				continue
			}
			return c.PatchImps[i] + "~" + c.FileImps[i]
		}
	}
	return "none"
}

func firstWords(s string, n int) string {
	f := strings.Fields(s)
	if len(f) > n {
		f = f[:n]
	}
	return strings.Join(f, " ")
}
