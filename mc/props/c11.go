package props

import (
	"bytes"
	"fmt"
	"go/ast"
	"go/parser"
	"go/token"
	"path"
	"regexp"
	"sort"
	"strconv"
	"strings"

	"github.com/uber-go/gopatch/patch"

	"verifmc/core"
	"verifmc/model"
)

// C11Case: an import-editing change and a file with other imports.
type C11Case struct {
	PatchID string        `json:"patch_id"`
	Change  *model.Change `json:"change"`
	File    string        `json:"file"`
	Uses    string        `json:"uses"`   // kind of remaining use of the affected package name
	Layout  string        `json:"layout"` // grouped | single | two-blocks
	Mode    string        `json:"mode"`   // api | cli | cli-skip-imports
}

func init() {
	core.Register(&core.Property{
		ID:    "C11",
		Level: "model_checking",
		Rule: "universe = 28 import-editing changes (11 of them listing two or three imports in one change, add, add named, delete, rename path, rename name, name an unnamed import, drop a name, metavariable-named rename on named and unnamed file imports, match-only, replace by another package, paths ending in /v1) x every subset (<=3, thorough <=4) of other imports {named, blank, dot, plain, commented} x layout {grouped, single declarations, two blocks} x position of the affected import x remaining uses of the affected package name {none, plain selector elsewhere, chained selector, inside a call argument, only at the rewritten site, only through a shadowing parameter / local variable} x {API, CLI, CLI --skip-import-processing}. " +
			"Relational oracle from the statement over the sets of (name, path) of input and output. non-trivial = the change applies",
		Assumptions: []string{
			"an import on a context line (matched, neither added nor deleted) that is no longer referred to is unspecified: no assertion",
			"when a '+' import takes over the package name of a '-' import, the '-' import is expected to be gone (replacement), although the file still uses that name",
			"a parameter or local variable shadowing the package name is not a reference to the package (uses=shadowed)",
		},
		Bounds:  func(tier string) map[string]any { return map[string]any{"other_imports_subset": c11Subset(tier)} },
		NewCase: func() any { return &C11Case{} },
		Gen:     c11Gen,
		Setup:   cliSetup,
		Run:     c11Run,
	})
}

func c11Subset(tier string) int {
	if tier == "thorough" {
		return 4
	}
	return 3
}

type c11Patch struct {
	id       string
	ch       *model.Change
	fileImp  string // how the file imports the affected path ("" = not imported): spec text
	pkgName  string // name by which the file refers to the affected package
	siteCall string // call at the site in the file
}

func c11Patches() []c11Patch {
	xm := []model.MetaVar{{Name: "x", Kind: "expression"}}
	nm := []model.MetaVar{{Name: "x", Kind: "expression"}, {Name: "n", Kind: "identifier"}}
	imp := func(tag, name, p string) model.Import { return model.Import{Tag: tag, Name: name, Path: p} }
	return []c11Patch{
		{"add", &model.Change{Kind: "expr", Meta: xm, Imports: []model.Import{imp("+", "", "new/q")}, Lines: model.L("-foo(x)", "+q.Foo(x)")}, "", "", "foo(1)"},
		{"add-named", &model.Change{Kind: "expr", Meta: xm, Imports: []model.Import{imp("+", "qq", "new/q")}, Lines: model.L("-foo(x)", "+qq.Foo(x)")}, "", "", "foo(1)"},
		{"delete", &model.Change{Kind: "expr", Meta: xm, Imports: []model.Import{imp("-", "", "old/p")}, Lines: model.L("-p.Foo(x)", "+foo(x)")}, `"old/p"`, "p", "p.Foo(1)"},
		{"delete-named", &model.Change{Kind: "expr", Meta: xm, Imports: []model.Import{imp("-", "pp", "old/p")}, Lines: model.L("-pp.Foo(x)", "+foo(x)")}, `pp "old/p"`, "pp", "pp.Foo(1)"},
		{"rename-path", &model.Change{Kind: "expr", Meta: xm, Imports: []model.Import{imp("-", "", "old/p"), imp("+", "", "new/p")}, Lines: model.L("-p.Foo(x)", "+p.Bar(x)")}, `"old/p"`, "p", "p.Foo(1)"},
		{"rename-name", &model.Change{Kind: "expr", Meta: xm, Imports: []model.Import{imp("-", "a", "old/p"), imp("+", "b", "old/p")}, Lines: model.L("-a.Foo(x)", "+b.Foo(x)")}, `a "old/p"`, "a", "a.Foo(1)"},
		{"name-unnamed", &model.Change{Kind: "expr", Meta: xm, Imports: []model.Import{imp("-", "", "old/p"), imp("+", "pp", "old/p")}, Lines: model.L("-p.Foo(x)", "+pp.Foo(x)")}, `"old/p"`, "p", "p.Foo(1)"},
		{"drop-name", &model.Change{Kind: "expr", Meta: xm, Imports: []model.Import{imp("-", "pp", "old/p"), imp("+", "", "old/p")}, Lines: model.L("-pp.Foo(x)", "+p.Foo(x)")}, `pp "old/p"`, "pp", "pp.Foo(1)"},
		{"metavar-rename-named", &model.Change{Kind: "expr", Meta: nm, Imports: []model.Import{imp("-", "n", "old/p"), imp("+", "n", "new/p")}, Lines: model.L("-n.Foo(x)", "+n.Bar(x)")}, `pp "old/p"`, "pp", "pp.Foo(1)"},
		{"metavar-rename-unnamed", &model.Change{Kind: "expr", Meta: nm, Imports: []model.Import{imp("-", "n", "old/p"), imp("+", "n", "new/p")}, Lines: model.L("-n.Foo(x)", "+n.Bar(x)")}, `"old/p"`, "p", "n.Foo(1)"},
		{"match-only", &model.Change{Kind: "expr", Meta: xm, Imports: []model.Import{imp(" ", "", "old/p")}, Lines: model.L("-p.Foo(x)", "+p.Bar(x)")}, `"old/p"`, "p", "p.Foo(1)"},
		{"replace-package", &model.Change{Kind: "expr", Meta: xm, Imports: []model.Import{imp("-", "", "old/p"), imp("+", "", "new/q")}, Lines: model.L("-p.Foo(x)", "+q.Foo(x)")}, `"old/p"`, "p", "p.Foo(1)"},
		{"delete-v1", &model.Change{Kind: "expr", Meta: xm, Imports: []model.Import{imp("-", "", "old/api/v1")}, Lines: model.L("-v1.Foo(x)", "+foo(x)")}, `"old/api/v1"`, "v1", "v1.Foo(1)"},
		// one change listing several imports (the records kept per matched import must not leak from one to the next)
		{"two:metavar-unnamed+context", &model.Change{Kind: "expr", Meta: nm, Imports: []model.Import{imp("-", "n", "old/p"), imp("+", "n", "new/p"), imp(" ", "", "ctx/http")}, Lines: model.L("-n.Foo(x)", "+n.Bar(x)")}, `"old/p";"ctx/http"`, "p", "n.Foo(http.Client)"},
		{"two:metavar-named+context", &model.Change{Kind: "expr", Meta: nm, Imports: []model.Import{imp("-", "n", "old/p"), imp("+", "n", "new/p"), imp(" ", "", "ctx/http")}, Lines: model.L("-n.Foo(x)", "+n.Bar(x)")}, `pp "old/p";"ctx/http"`, "pp", "pp.Foo(http.Client)"},
		{"two:context+metavar-unnamed", &model.Change{Kind: "expr", Meta: nm, Imports: []model.Import{imp(" ", "", "ctx/http"), imp("-", "n", "old/p"), imp("+", "n", "new/p")}, Lines: model.L("-n.Foo(x)", "+n.Bar(x)")}, `"ctx/http";"old/p"`, "p", "n.Foo(http.Client)"},
		{"two:named+context", &model.Change{Kind: "expr", Meta: xm, Imports: []model.Import{imp("-", "pp", "old/p"), imp("+", "pp", "new/p"), imp(" ", "", "ctx/http")}, Lines: model.L("-pp.Foo(x)", "+pp.Bar(x)")}, `pp "old/p";"ctx/http"`, "pp", "pp.Foo(http.Client)"},
		{"two:delete+delete", &model.Change{Kind: "expr", Meta: xm, Imports: []model.Import{imp("-", "", "old/p"), imp("-", "", "old/r")}, Lines: model.L("-p.Foo(r.Wrap(x))", "+foo(x)")}, `"old/p";"old/r"`, "p", "p.Foo(r.Wrap(1))"},
		{"two:delete+delete-second-used", &model.Change{Kind: "expr", Meta: xm, Imports: []model.Import{imp("-", "", "old/r"), imp("-", "", "old/p")}, Lines: model.L("-r.Foo(p.Wrap(x))", "+foo(x)")}, `"old/r";"old/p"`, "p", "r.Foo(p.Wrap(1))"},
		{"two:metavar+metavar", &model.Change{Kind: "expr", Meta: []model.MetaVar{{Name: "x", Kind: "expression"}, {Name: "n", Kind: "identifier"}, {Name: "m", Kind: "identifier"}}, Imports: []model.Import{imp("-", "n", "old/p"), imp("+", "n", "new/p"), imp(" ", "m", "ctx/http")}, Lines: model.L("-n.Foo(x)", "+n.Bar(x, m.Client)")}, `"old/p";hh "ctx/http"`, "p", "n.Foo(hh.Client)"},
		// blank and dot imports on a '-' line: nothing refers to them by name afterwards, they must be gone
		// two '-' imports named by identifier metavariables (spelled like the packages, as the documentation does), the file naming none, one or both of them
		{"two:metadel+metadel/uu", c11TwoMetaDel(), `"old/p";"old/r"`, "p", "p.Foo(r.Wrap(1))"},
		{"two:metadel+metadel/un", c11TwoMetaDel(), `"old/p";rr "old/r"`, "p", "p.Foo(rr.Wrap(1))"},
		{"two:metadel+metadel/nu", c11TwoMetaDel(), `pp "old/p";"old/r"`, "pp", "pp.Foo(r.Wrap(1))"},
		{"two:metadel+metadel/nn", c11TwoMetaDel(), `pp "old/p";rr "old/r"`, "pp", "pp.Foo(rr.Wrap(1))"},
		// paths whose last element is not the package name (gopkg.in versions, major-version suffixes, go- prefixes)
		{"delete-yaml.v2", &model.Change{Kind: "expr", Meta: xm, Imports: []model.Import{imp("-", "", "gopkg.in/yaml.v2")}, Lines: model.L("-yaml.Foo(x)", "+foo(x)")}, `"gopkg.in/yaml.v2"`, "yaml", "yaml.Foo(1)"},
		{"delete-v2-suffix", &model.Change{Kind: "expr", Meta: xm, Imports: []model.Import{imp("-", "", "x/api/v2")}, Lines: model.L("-api.Foo(x)", "+foo(x)")}, `"x/api/v2"`, "api", "api.Foo(1)"},
		{"delete-go-prefix", &model.Change{Kind: "expr", Meta: xm, Imports: []model.Import{imp("-", "", "x/go-foo")}, Lines: model.L("-foo.Foo(x)", "+bar(x)")}, `"x/go-foo"`, "foo", "foo.Foo(1)"},
		{"delete-blank", &model.Change{Kind: "expr", Meta: xm, Imports: []model.Import{imp("-", "_", "old/p")}, Lines: model.L("-foo(x)", "+bar(x)")}, `_ "old/p"`, "p", "foo(1)"},
		{"delete-dot", &model.Change{Kind: "expr", Meta: xm, Imports: []model.Import{imp("-", ".", "old/p")}, Lines: model.L("-Foo(x)", "+foo(x)")}, `. "old/p"`, "p", "Foo(1)"},
		{"replace-blank", &model.Change{Kind: "expr", Meta: xm, Imports: []model.Import{imp("-", "_", "old/p"), imp("+", "_", "new/p")}, Lines: model.L("-foo(x)", "+bar(x)")}, `_ "old/p"`, "p", "foo(1)"},
		// a declaration pattern that also adds an import (the recorded position of the matched declaration must survive the insertion)
		{"add-on-decl-pattern", &model.Change{Kind: "decl", Imports: []model.Import{imp("+", "", "new/q")}, Lines: model.L("-func site() {", "+func site2() {", " DOTS_1", " }")}, "", "", "foo(1)"},
		{"replace-on-decl-pattern", &model.Change{Kind: "decl", Imports: []model.Import{imp("-", "", "old/p"), imp("+", "", "new/q")}, Lines: model.L("-func site() {", "+func site2() {", " DOTS_1", " }")}, `"old/p"`, "p", "foo(1)"},
		{"add-v1-next-to-api", &model.Change{Kind: "expr", Meta: xm, Imports: []model.Import{imp(" ", "", "legacy/api"), imp("+", "", "new/api/v1")}, Lines: model.L("-api.Foo(x)", "+v1.Foo(x)")}, `"legacy/api"`, "api", "api.Foo(1)"},
	}
}

func c11TwoMetaDel() *model.Change {
	return &model.Change{Kind: "expr", Meta: []model.MetaVar{{Name: "x", Kind: "expression"}, {Name: "p", Kind: "identifier"}, {Name: "r", Kind: "identifier"}},
		Imports: []model.Import{{Tag: "-", Name: "p", Path: "old/p"}, {Tag: "-", Name: "r", Path: "old/r"}, {Tag: "+", Path: "new/q"}},
		Lines:   model.L("-p.Foo(r.Wrap(x))", "+q.Foo(x)")}
}

// c11RealName: the package names of catalogue paths whose last element is not the package name
var c11RealName = map[string]string{"gopkg.in/yaml.v2": "yaml", "x/api/v2": "api", "x/go-foo": "foo"}

var c11Others = []string{`nn "x/named"`, `_ "x/blank"`, `. "x/dot"`, `"x/plain"`, `"x/commented" // why it is here`, `"C"`}

func c11Gen(tier string, emit func(any)) {
	maxSub := c11Subset(tier)
	uses := []string{"none", "plain", "chained", "in-arg", "site-only-twice", "shadowed"}
	for _, p := range c11Patches() {
		for mask := 0; mask < 1<<len(c11Others); mask++ {
			var others []string
			for i, o := range c11Others {
				if mask&(1<<i) != 0 {
					others = append(others, o)
				}
			}
			if len(others) > maxSub {
				continue
			}
			for _, layout := range []string{"grouped", "single", "two-blocks"} {
				for pos := 0; pos <= len(others); pos++ {
					if p.fileImp == "" && pos > 0 {
						continue
					}
					if pos > 0 && pos < len(others) && tier != "thorough" {
						continue // quick: affected import first or last
					}
					specs := append([]string{}, others[:pos]...)
					if p.fileImp != "" {
						specs = append(specs, strings.Split(p.fileImp, ";")...)
					}
					specs = append(specs, others[pos:]...)
					for _, u := range uses {
						if p.pkgName == "" && u != "none" {
							continue
						}
						file := c11File(specs, layout, p, u)
						for _, mode := range []string{"api", "cli", "cli-skip-imports"} {
							if mode != "api" && (len(others) > 2 || layout == "two-blocks") && tier != "thorough" {
								continue
							}
							emit(&C11Case{PatchID: p.id, Change: p.ch, File: file, Uses: u, Layout: layout, Mode: mode})
						}
					}
				}
			}
		}
	}
}

func c11File(specs []string, layout string, p c11Patch, uses string) string {
	var b strings.Builder
	b.WriteString("package a\n\n")
	switch {
	case len(specs) == 0:
	case layout == "grouped":
		b.WriteString("import (\n")
		for _, s := range specs {
			b.WriteString("\t" + s + "\n")
		}
		b.WriteString(")\n\n")
	case layout == "single":
		for _, s := range specs {
			b.WriteString("import " + s + "\n")
		}
		b.WriteString("\n")
	default:
		h := (len(specs) + 1) / 2
		b.WriteString("import (\n")
		for _, s := range specs[:h] {
			b.WriteString("\t" + s + "\n")
		}
		b.WriteString(")\n\n")
		if len(specs[h:]) > 0 {
			b.WriteString("import (\n")
			for _, s := range specs[h:] {
				b.WriteString("\t" + s + "\n")
			}
			b.WriteString(")\n\n")
		}
	}
	n := p.pkgName
	b.WriteString("func site() {\n\t" + p.siteCall + "\n")
	if uses == "site-only-twice" {
		b.WriteString("\tif c {\n\t\t" + strings.Replace(p.siteCall, "(1)", "(2)", 1) + "\n\t}\n")
	}
	b.WriteString("}\n\nfunc other() {\n\tnn.Use()\n\tUseDot()\n")
	switch uses {
	case "plain":
		b.WriteString("\t" + n + ".Other()\n")
	case "chained":
		b.WriteString("\t" + n + ".Default.Other(1).More()\n")
	case "in-arg":
		b.WriteString("\tg(" + n + ".X).Y()\n")
	}
	b.WriteString("}\n")
	if uses == "shadowed" {
		// a parameter and a local variable named like the package: selecting from them is no use of the package
		b.WriteString("\nfunc shadow(" + n + " T) {\n\t" + n + ".Field.M()\n}\n\nfunc shadow2() {\n\tvar " + n + " T\n\tg(" + n + ".Field)\n}\n")
	}
	return b.String()
}

var c11DecoyImp = regexp.MustCompile(`(?m)^(\s*(?:import )?)(?:(\w+) )?"(old/p|ctx/http|legacy/api|old/api/v1)"`)

// c11Decoy renames the local names under which the file imports the packages the patches speak about.
func c11Decoy(file string) string {
	names := map[string]bool{}
	out := c11DecoyImp.ReplaceAllStringFunc(file, func(m string) string {
		sm := c11DecoyImp.FindStringSubmatch(m)
		if sm[2] != "" {
			names[sm[2]] = true
			return sm[1] + "dq" + sm[2] + " \"" + sm[3] + "\""
		}
		names[path.Base(sm[3])] = true
		return sm[1] + "dq" + path.Base(sm[3]) + " \"" + sm[3] + "\""
	})
	for n := range names {
		out = regexp.MustCompile(`\b`+n+`\.`).ReplaceAllString(out, "dq"+n+".")
	}
	return out
}

type impSpec struct{ name, path string }

func importsOf(src []byte) ([]impSpec, *ast.File, error) {
	f, err := parser.ParseFile(token.NewFileSet(), "a.go", src, 0) // with object resolution: refersTo needs it
	if err != nil {
		return nil, nil, err
	}
	var out []impSpec
	for _, d := range f.Decls {
		gd, ok := d.(*ast.GenDecl)
		if !ok || gd.Tok != token.IMPORT {
			continue
		}
		for _, s := range gd.Specs {
			is := s.(*ast.ImportSpec)
			p, _ := strconv.Unquote(is.Path.Value)
			n := ""
			if is.Name != nil {
				n = is.Name.Name
			}
			out = append(out, impSpec{n, p})
		}
	}
	return out, f, nil
}

// refersTo reports whether the code selects something from an identifier of that name.
func refersTo(f *ast.File, name string) bool {
	found := false
	ast.Inspect(f, func(n ast.Node) bool {
		if se, ok := n.(*ast.SelectorExpr); ok {
			// an identifier that go/parser resolved to a declaration of this file (parameter, local variable)
			// is not the package
			if id, ok := se.X.(*ast.Ident); ok && id.Name == name && id.Obj == nil {
				found = true
			}
		}
		return true
	})
	return found
}

func c11Run(env *core.Env, ci any) core.Outcome {
	c := ci.(*C11Case)
	ptext := c.Change.Render()
	var out []byte
	switch c.Mode {
	case "api":
		pf, err := patch.Parse("i.patch", []byte(ptext))
		if err != nil {
			return core.Outcome{Skip: "patch rejected: " + firstWords(stripPos(err.Error()), 7)}
		}
		// the same parsed patch is first applied to a decoy that imports the affected packages under other
		// names: nothing of that application may be remembered
		if decoy := c11Decoy(c.File); decoy != c.File {
			_, _ = pf.Apply("decoy.go", []byte(decoy))
		}
		out, err = pf.Apply("a.go", []byte(c.File))
		if err != nil {
			return core.Outcome{Violation: fmt.Sprintf("Apply failed: %v\n--- patch:\n%s--- file:\n%s", err, ptext, c.File), FindingKey: "C11:apply-error/" + c.PatchID}
		}
	default:
		var flags []string
		if c.Mode == "cli-skip-imports" {
			flags = []string{"--skip-import-processing"}
		}
		o, err, rej := cliRunner(env, flags...)(ptext, &MCase{File: c.File})
		if rej != "" {
			return core.Outcome{Skip: rej}
		}
		if err != nil {
			return core.Outcome{Violation: fmt.Sprintf("CLI failed: %v\n--- patch:\n%s--- file:\n%s", err, ptext, c.File), FindingKey: "C11:apply-error/" + c.PatchID}
		}
		out = o
	}
	o := core.Outcome{Class: "not-applied"}
	if bytes.Equal(out, []byte(c.File)) {
		return o
	}
	o.Nontrivial = true
	o.Class = "applied/" + c.PatchID
	bad := func(key, format string, a ...any) core.Outcome {
		o.Violation = fmt.Sprintf("[%s, uses=%s, layout=%s, %s] ", c.PatchID, c.Uses, c.Layout, c.Mode) + fmt.Sprintf(format, a...) + "\n--- patch:\n" + ptext + "--- file:\n" + c.File + "--- output:\n" + string(out)
		o.FindingKey = "C11:" + key + "/" + c.PatchID
		if strings.HasPrefix(key, "!") { // semantic key: independent of the patch
			o.FindingKey = "C11:" + key[1:]
		}
		return o
	}
	in, _, err := importsOf([]byte(c.File))
	if err != nil {
		panic("harness: generated file does not parse: " + err.Error())
	}
	got, outFile, err := importsOf(out)
	if err != nil {
		return bad("unparseable-output", "output does not parse: %v", err)
	}
	mentioned := map[string]bool{}
	for _, im := range c.Change.Imports {
		mentioned[im.Path] = true
	}
	count := func(list []impSpec, s impSpec) int {
		n := 0
		for _, x := range list {
			if x == s {
				n++
			}
		}
		return n
	}
	// every import the patch does not mention is still present, exactly as often; nothing unmentioned is added
	for _, s := range in {
		if !mentioned[s.path] && count(got, s) != count(in, s) {
			return bad("unmentioned-import-changed", "import %q %q is not mentioned by the patch but occurs %d time(s) in the output (input: %d)", s.name, s.path, count(got, s), count(in, s))
		}
	}
	for _, s := range got {
		if !mentioned[s.path] && count(in, s) == 0 {
			return bad("unmentioned-import-added", "import %q %q appears in the output but neither in the input nor in the patch", s.name, s.path)
		}
	}
	// names captured by metavariable-named '-' imports
	captured := map[string]string{}
	isMeta := map[string]bool{}
	for _, m := range c.Change.Meta {
		if m.Kind == "identifier" {
			isMeta[m.Name] = true
		}
	}
	fileName := func(p string) (string, bool) {
		for _, s := range in {
			if s.path == p {
				return s.name, true
			}
		}
		return "", false
	}
	for _, im := range c.Change.Imports {
		if im.Tag != "+" && isMeta[im.Name] {
			if n, ok := fileName(im.Path); ok {
				captured[im.Name] = n
			}
		}
	}
	plusPkgNames := map[string]bool{}
	for _, im := range c.Change.Imports {
		if im.Tag != "+" {
			continue
		}
		want := im.Name
		if isMeta[im.Name] {
			want = captured[im.Name]
		}
		n := count(got, impSpec{want, im.Path})
		if n != 1 {
			return bad("plus-import-missing-or-duplicated", "import %q added by the patch occurs %d time(s) under the name %q in the output (imports: %v)", im.Path, n, want, got)
		}
		if want == "" {
			plusPkgNames[path.Base(im.Path)] = true
		} else {
			plusPkgNames[want] = true
		}
	}
	for _, im := range c.Change.Imports {
		if im.Tag == "+" {
			continue
		}
		fn, _ := fileName(im.Path)
		local := fn
		if local == "" {
			local = path.Base(im.Path)
			if rn, ok := c11RealName[im.Path]; ok {
				local = rn
			}
		}
		// the same (name, path) re-added by a '+' line is governed by the '+' rule
		readded := false
		for _, im2 := range c.Change.Imports {
			w := im2.Name
			if isMeta[w] {
				w = captured[w]
			}
			if im2.Tag == "+" && im2.Path == im.Path && w == fn {
				readded = true
			}
		}
		if readded {
			continue
		}
		present := count(got, impSpec{fn, im.Path})
		referred := refersTo(outFile, local)
		switch {
		case im.Tag == "-" && plusPkgNames[local]:
			if present != 0 {
				return bad("replaced-import-kept", "import %q is deleted by the patch and its name %q is taken over by an added import, but it is still present", im.Path, local)
			}
		case referred:
			if _, odd := c11RealName[im.Path]; odd && present != 1 && fn == "" {
				return bad("!package-name-is-not-the-last-path-element", "import %q (package %s) is still referred to as %q but occurs %d time(s) in the output: gopatch takes the last path element for the package name", im.Path, local, local, present)
			}
			if present != 1 {
				return bad("used-import-removed", "import %q is still referred to as %q by the rewritten file but occurs %d time(s) in the output", im.Path, local, present)
			}
		case im.Tag == "-":
			if present != 0 {
				return bad("unused-import-kept", "import %q is on a '-' line and %q is no longer referred to, but it is still present", im.Path, local)
			}
		default:
			// context-line import no longer referred to: unspecified
		}
	}
	_ = sort.Strings
	return o
}
