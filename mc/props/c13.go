package props

import (
	"fmt"
	"regexp"
	"strings"

	"github.com/uber-go/gopatch/patch"

	"verifmc/canon"
	"verifmc/core"
)

// pline is one line of a patch with the region it belongs to.
type pline struct {
	Text   string `json:"t"`
	Region string `json:"r"` // desc | header | meta | metaend | body
}

// C13Case: a base patch, a sequence of layout transformations, a file.
type C13Case struct {
	Base     string   `json:"base"` // id of the base patch
	Steps    []string `json:"steps"`
	BaseText string   `json:"base_text"`
	Variant  string   `json:"variant_text"`
	File     string   `json:"file"`
	// descriptions expected for each change of the variant (by the '#'-directly-above rule)
	Desc [][]string `json:"desc"`
	Mode string     `json:"mode"` // api | cli
}

func init() {
	core.Register(&core.Property{
		ID:    "C13",
		Level: "model_checking",
		Rule: "universe = 22 base patches (two changes of which the later has elisions after unequal numbers of -/+ lines, an interface method with an unnamed variadic parameter, expression, statement with context elisions, function declaration with elided parameters/body, imports incl. metavariable-named, two dependent changes, composite literal with elisions, for-header elision, repeated metavariable, pure addition / pure deletion between context elisions, identifier metavariables) x every single application and every pair (thorough: every triple for the short bases) of each layout transformation at every position: '#' line at each gap, blank line at each gap, naming the change and giving all changes the same name, a blank after the dots of a variadic parameter, renaming each metavariable to each of 5 names that also occur in the target files, regrouping / ';'-joining / reordering metavariable declarations, re-wrapping at each comma, re-indenting, context line <-> identical -/+ pair x 4 target files. " +
			"Differential oracle: the variant's result is canonically identical to the base patch's (and fails iff it fails); descriptions on stderr are exactly the '#' lines directly above the header. non-trivial = the base patch rewrites the file",
		Assumptions: []string{"a transformation is only generated where it is meaning-preserving by the property's wording (metavariables that name an import are not renamed; new names do not occur literally in the pattern)"},
		Bounds: func(tier string) map[string]any {
			return map[string]any{"bases": len(c13Bases()), "max_steps": c13MaxSteps(tier)}
		},
		NewCase: func() any { return &C13Case{} },
		Gen:     c13Gen,
		Setup:   cliSetup,
		Run:     c13Run,
	})
}

func c13MaxSteps(tier string) int {
	if tier == "thorough" {
		return 3
	}
	return 2
}

type c13Base struct {
	id    string
	lines []pline
	files []string
	// metavariables that may be renamed, and literal identifiers used in the pattern
	renamable []string
}

func pl(region string, texts ...string) []pline {
	var out []pline
	for _, t := range texts {
		out = append(out, pline{t, region})
	}
	return out
}

func cat(parts ...[]pline) []pline {
	var out []pline
	for _, p := range parts {
		out = append(out, p...)
	}
	return out
}

func c13Bases() []c13Base {
	fnBody := func(stmts ...string) string {
		return "package p\n\nfunc f(a, y, n int) int {\n\t" + strings.Join(stmts, "\n\t") + "\n\treturn 0\n}\n"
	}
	return []c13Base{
		{id: "expr", renamable: []string{"x", "y"},
			lines: cat(pl("desc", "# swaps arguments"), pl("header", "@@"), pl("meta", "var x expression", "var y expression"), pl("metaend", "@@"), pl("body", "-foo(x, y)", "+bar(y, x)")),
			files: []string{fnBody("foo(a, y)", "foo(a+1, n)"), fnBody("foo(foo(1, 2), 3)"), fnBody("bar(1, 2)"), "package p\n\nvar v = foo(x, q)\n"}},
		{id: "stmt-ctx-elision", renamable: []string{"x", "v"},
			lines: cat(pl("header", "@@"), pl("meta", "var x expression", "var v identifier"), pl("metaend", "@@"), pl("body", " v := foo(x)", " ...", "-use(v)", "+use2(v, x)")),
			files: []string{fnBody("a := foo(y)", "mid()", "use(a)"), fnBody("a := foo(1)", "use(a)", "use(a)"), fnBody("a := foo(1)", "use(n)"), fnBody("if a > 0 {\n\t\tx := foo(n)\n\t\tuse(x)\n\t}")}},
		{id: "funcdecl", renamable: []string{"n"},
			lines: cat(pl("desc", "# widen", "# the first parameter"), pl("header", "@ widen @"), pl("meta", "var n identifier"), pl("metaend", "@@"), pl("body", "-func n(a int, ...) error {", "+func n(a int64, ...) error {", "   ...", " }")),
			files: []string{"package p\n\nfunc g(a int, b string) error {\n\treturn nil\n}\n", "package p\n\nfunc g(a int) error { return nil }\n\nfunc h(a int, n, x int) error {\n\tg(a)\n\treturn nil\n}\n", "package p\n\nfunc g(b int) error { return nil }\n", "package p\n\nfunc (r T) g(a int, b ...string) error { return nil }\n"}},
		{id: "import-ctx", renamable: []string{"x"},
			lines: cat(pl("header", "@@"), pl("meta", "var x expression"), pl("metaend", "@@"), pl("body", " import \"old/p\"", "", "-p.Foo(x)", "+p.Bar(x)")),
			files: []string{"package a\n\nimport \"old/p\"\n\nfunc f() { p.Foo(1) }\n", "package a\n\nimport (\n\t\"fmt\"\n\t\"old/p\"\n)\n\nfunc f() { fmt.Println(p.Foo(x)) }\n", "package a\n\nfunc f() { p.Foo(1) }\n", "package a\n\nimport q \"old/p\"\n\nfunc f() { p.Foo(1) }\n"}},
		{id: "import-metavar", renamable: []string{"x"},
			lines: cat(pl("header", "@@"), pl("meta", "var n identifier", "var x expression"), pl("metaend", "@@"), pl("body", "-import n \"old/p\"", "+import n \"new/p\"", "", "-n.Foo(x)", "+n.Bar(x)")),
			files: []string{"package a\n\nimport pp \"old/p\"\n\nfunc f() { pp.Foo(1) }\n", "package a\n\nimport (\n\t\"fmt\"\n\tn \"old/p\"\n)\n\nfunc f() { fmt.Println(n.Foo(x)) }\n", "package a\n\nfunc f() { p.Foo(1) }\n", "package a\n\nimport \"old/p\"\n\nfunc f() { n.Foo(1) }\n"}},
		{id: "two-changes", renamable: []string{"x", "z"},
			lines: cat(pl("header", "@@"), pl("meta", "var x expression"), pl("metaend", "@@"), pl("body", "-old(x)", "+mid(x, x)", ""),
				pl("desc", "# second step"), pl("header", "@ second @"), pl("meta", "var z expression"), pl("metaend", "@@"), pl("body", "-mid(z, z)", "+done(z)")),
			files: []string{fnBody("old(a)"), fnBody("mid(y, y)", "old(n)"), fnBody("mid(a, y)"), fnBody("old(mid(1, 1))")}},
		{id: "composite-elisions", renamable: []string{"x"},
			lines: cat(pl("header", "@@"), pl("meta", "var x expression"), pl("metaend", "@@"), pl("body", " T{", "   ...,", "-  a: x,", "+  b: x,", "   ...,", " }")),
			files: []string{"package p\n\nvar v = T{a: 1}\n", "package p\n\nvar v = T{k: 0, a: y, z: 2}\n", "package p\n\nvar v = T{b: 1}\n", "package p\n\nvar v = U{a: 1}\n"}},
		{id: "for-dots", renamable: []string{"x"},
			lines: cat(pl("header", "@@"), pl("meta", "var x expression"), pl("metaend", "@@"), pl("body", " for ... {", "-  foo(x)", "+  bar(x)", "   ...", " }")),
			files: []string{fnBody("for i := 0; i < n; i++ {\n\t\tfoo(i)\n\t\ttail()\n\t}"), fnBody("for range y {\n\t\tfoo(a)\n\t}"), fnBody("for {\n\t\tbar(1)\n\t}"), fnBody("if a > 0 {\n\t\tfoo(1)\n\t}")}},
		{id: "repeated-metavar", renamable: []string{"x"},
			lines: cat(pl("header", "@@"), pl("meta", "var x expression"), pl("metaend", "@@"), pl("body", "-max(x, x)", "+x")),
			files: []string{fnBody("_ = max(a, a)"), fnBody("_ = max(x+1, y+1)", "_ = max(v+1, w+1)"), fnBody("_ = max(y+1, y+1)"), fnBody("_ = max(a, n)", "_ = max(n.f(a), n.f(y))")}},
		{id: "pure-addition", renamable: nil,
			lines: cat(pl("header", "@@"), pl("metaend", "@@"), pl("body", " setup(...)", "+checkpoint()", " teardown(...)")),
			files: []string{fnBody("setup(a, 1)", "teardown(y, 2)"), fnBody("setup()", "teardown()"), fnBody("setup(1)", "mid()", "teardown(2)"), fnBody("setup(a, y, n)", "teardown(n)", "teardown(a)")}},
		{id: "pure-deletion", renamable: nil,
			lines: cat(pl("header", "@@"), pl("metaend", "@@"), pl("body", " setup(...)", "-checkpoint()", " teardown(...)", " finish(...)")),
			files: []string{fnBody("setup(a, 1)", "checkpoint()", "teardown(y, 2)", "finish(n, 3)"), fnBody("setup()", "checkpoint()", "teardown()", "finish()"), fnBody("setup(1)", "teardown(2)", "finish(3)"), fnBody("setup(a)", "checkpoint()", "teardown(y)", "other()", "finish(n)")}},
		{id: "ident-metavars", renamable: []string{"t", "fld"},
			lines: cat(pl("header", "@@"), pl("meta", "var t, fld identifier"), pl("metaend", "@@"), pl("body", "-type t struct{ fld int }", "+type t struct{ fld int64 }")),
			files: []string{"package p\n\ntype A struct{ x int }\n", "package p\n\ntype n struct{ y int }\n\ntype B struct{ a string }\n", "package p\n\ntype A struct{ x, y int }\n", "package p\n\nfunc f() {\n\ttype a struct{ n int }\n}\n"}},
		{id: "joined-decl", renamable: []string{"x", "y"},
			lines: cat(pl("header", "@@"), pl("meta", "var x, y expression"), pl("metaend", "@@"), pl("body", "-foo(x)", "-bar(y)", "+both(x, y)")),
			files: []string{fnBody("foo(a)", "bar(y)"), fnBody("foo(1)", "mid()", "bar(2)"), fnBody("bar(1)", "foo(2)"), fnBody("foo(n)", "bar(n)", "foo(a)", "bar(a)")}},
		{id: "ctx-list-two-elisions", renamable: []string{"x"},
			lines: cat(pl("header", "@@"), pl("meta", "var x expression"), pl("metaend", "@@"), pl("body", " register(..., x, nil, ...)", "-start()", "+run(x)")),
			files: []string{fnBody("register(a, y, nil, n)", "start()"), fnBody("register(y, nil)", "start()"), fnBody("register(1, 2, a, nil, 3, 4)", "start()", "start()"), fnBody("register(nil, a)", "start()")}},
		{id: "sig-two-elisions", renamable: []string{"n"},
			lines: cat(pl("header", "@@"), pl("meta", "var n identifier"), pl("metaend", "@@"), pl("body", " func n(..., last int) (..., error) {", "-  start()", "+  run()", "   ...", " }")),
			files: []string{"package p\n\nfunc g(a string, last int) (int, error) {\n\tstart()\n\treturn 0, nil\n}\n", "package p\n\nfunc g(last int) error {\n\tstart()\n\treturn nil\n}\n", "package p\n\nfunc g(a, b string, c bool, last int) (x, y int, err error) {\n\tstart()\n\treturn\n}\n", "package p\n\nfunc g(last int) {\n\tstart()\n}\n"}},
		{id: "ctx-unary-operands", renamable: []string{"x"},
			lines: cat(pl("header", "@@"), pl("meta", "var x expression"), pl("metaend", "@@"), pl("body", " total := sum(base, -offset, +x, *p, &q, <-ch)", "-foo(x)", "+bar(x)")),
			files: []string{fnBody("total := sum(base, -offset, +a, *p, &q, <-ch)", "foo(a)"), fnBody("total := sum(base, -offset, +n, *p, &q, <-ch)", "mid()", "foo(n)"), fnBody("total := sum(base, offset, +a, *p, &q, <-ch)", "foo(a)"), fnBody("total := sum(base, -offset, +y, *p, &q, <-ch)", "foo(a)")}},
		{id: "array-ellipsis", renamable: []string{"x"},
			lines: cat(pl("header", "@@"), pl("meta", "var x expression"), pl("metaend", "@@"), pl("body", "-v := [...]int{x, 2}", "+v := [...]int{2, x}", " use(v, ...)")),
			files: []string{fnBody("v := [...]int{a, 2}", "use(v, 1)"), fnBody("v := [...]int{n, 2}", "use(v)"), fnBody("v := []int{a, 2}", "use(v, 1)"), fnBody("v := [...]int{y, 2}", "mid()", "use(v, a, n)")}},
		{id: "two-changes-late-elisions", renamable: nil,
			lines: cat(pl("header", "@@"), pl("metaend", "@@"), pl("body", "-oldName()", "+newName()", ""),
				pl("header", "@@"), pl("metaend", "@@"), pl("body", "+trace(\"enter\")", "+trace(\"args\")", " first(...)", " second(...)")),
			files: []string{fnBody("first(1, 2)", "second(a)", "oldName()"), fnBody("first()", "second(y, n)"), fnBody("first(1)", "mid()", "second(2)", "oldName()"), fnBody("oldName()", "first(a, y)", "second(first(n))")}},
		{id: "interface-variadic", renamable: nil,
			lines: cat(pl("header", "@@"), pl("metaend", "@@"), pl("body", " type Store interface {", "-  Put(...string)", "+  PutAll(...string)", "   Get(k string, opts ...Option) string", " }")),
			files: []string{"package p\n\ntype Store interface {\n\tPut(...string)\n\tGet(k string, opts ...Option) string\n}\n", "package p\n\ntype Store interface {\n\tPut(string)\n\tGet(k string, opts ...Option) string\n}\n", "package p\n\ntype Other interface {\n\tPut(...string)\n\tGet(k string, opts ...Option) string\n}\n", "package p\n\nfunc f() {\n\ttype Store interface {\n\t\tPut(...string)\n\t\tGet(k string, opts ...Option) string\n\t}\n}\n"}},
		{id: "pm-two-elisions", renamable: nil,
			lines: cat(pl("header", "@@"), pl("metaend", "@@"), pl("body", "-foo(..., 0, ...)", "+bar(..., 0, ...)")),
			files: []string{fnBody("foo(1, 0, 2)"), fnBody("foo(0)", "foo(a, y, 0)"), fnBody("foo(1, 2)"), fnBody("foo(0, 0, 0)")}},
		{id: "value-decl", renamable: []string{"x"},
			lines: cat(pl("desc", "# value"), pl("header", "@@"), pl("meta", "var x expression"), pl("metaend", "@@"), pl("body", "-var v = foo(x)", "+var v = bar(x)")),
			files: []string{"package p\n\nvar v = foo(1)\n", "package p\n\nfunc f() {\n\tvar v = foo(y)\n\t_ = v\n}\n", "package p\n\nvar w = foo(1)\n", "package p\n\nvar (\n\tv = foo(1)\n)\n"}},
	}
}

type c13Variant struct {
	step  string
	lines []pline
}

var variadicRe = regexp.MustCompile(`\.\.\.([A-Za-z_\[\*])`)

func countRegion(lines []pline, region string) int {
	n := 0
	for _, l := range lines {
		if l.Region == region {
			n++
		}
	}
	return n
}

var identRe = regexp.MustCompile(`[A-Za-z_][A-Za-z0-9_]*`)

// c13Transforms enumerates every single application of every transformation.
func c13Transforms(b c13Base, lines []pline) []c13Variant {
	var out []c13Variant
	ins := func(at int, l pline) []pline {
		n := append([]pline{}, lines[:at]...)
		n = append(n, l)
		return append(n, lines[at:]...)
	}
	regionAt := func(at int) string { // region of an inserted line = region of the line it precedes (or body at the end)
		if at < len(lines) {
			r := lines[at].Region
			if r == "header" || r == "desc" {
				if at == 0 || lines[at-1].Region == "body" {
					return "between"
				}
				return "desc"
			}
			if r == "metaend" {
				return "meta"
			}
			return r
		}
		return "body"
	}
	// T1: '#' line at every gap
	for g := 0; g <= len(lines); g++ {
		r := regionAt(g)
		reg := r
		if r == "between" {
			reg = "desc"
		}
		out = append(out, c13Variant{fmt.Sprintf("comment@%d(%s)", g, r), ins(g, pline{"# inserted comment", reg})})
	}
	// T2: blank line at every gap
	for g := 0; g <= len(lines); g++ {
		r := regionAt(g)
		reg := r
		if r == "between" || r == "desc" {
			// a blank line above a header: belongs to the previous body (or precedes the first change)
			reg = "blank-above-header"
		}
		out = append(out, c13Variant{fmt.Sprintf("blank@%d(%s)", g, r), ins(g, pline{"", reg})})
	}
	// T3: name / unname the change
	for i, l := range lines {
		if l.Region != "header" {
			continue
		}
		n := append([]pline{}, lines...)
		if l.Text == "@@" {
			n[i] = pline{fmt.Sprintf("@ named%d @", i), "header"}
			out = append(out, c13Variant{fmt.Sprintf("name@%d", i), n})
			n2 := append([]pline{}, lines...)
			n2[i] = pline{fmt.Sprintf("@named%d@", i), "header"}
			out = append(out, c13Variant{fmt.Sprintf("name-nospace@%d", i), n2})
		} else {
			n[i] = pline{"@@", "header"}
			out = append(out, c13Variant{fmt.Sprintf("unname@%d", i), n})
		}
	}
	// T3b: every change of the patch under one and the same name (names are labels, nothing requires them to differ)
	if nh := countRegion(lines, "header"); nh >= 2 {
		n := append([]pline{}, lines...)
		for i, l := range n {
			if l.Region == "header" {
				n[i] = pline{"@ same @", "header"}
			}
		}
		out = append(out, c13Variant{"name-all-same", n})
	}
	// T4: rename metavariables
	used := map[string]bool{}
	for _, l := range lines {
		if l.Region == "body" || l.Region == "meta" {
			for _, id := range identRe.FindAllString(l.Text, -1) {
				used[id] = true
			}
		}
	}
	for _, mv := range b.renamable {
		for _, nn := range []string{"q", "y", "a", "n", "x", "v", "w9"} {
			if used[nn] {
				continue
			}
			re := regexp.MustCompile(`\b` + mv + `\b`)
			n := append([]pline{}, lines...)
			for i, l := range n {
				if l.Region == "body" || l.Region == "meta" {
					n[i].Text = re.ReplaceAllString(l.Text, nn)
				}
			}
			out = append(out, c13Variant{fmt.Sprintf("rename:%s->%s", mv, nn), n})
		}
	}
	// T5: regroup / reorder metavariable declarations (per change)
	start := -1
	for i, l := range lines {
		if l.Region == "header" {
			start = i + 1
		}
		if l.Region != "metaend" || start < 0 {
			continue
		}
		var metas []pline
		pure := true
		for _, m := range lines[start:i] {
			if strings.TrimSpace(m.Text) == "" || strings.HasPrefix(m.Text, "#") {
				pure = false // a section already containing blank/comment lines is regrouped only when re-derived from its declarations
				continue
			}
			metas = append(metas, m)
		}
		if !pure {
			start = -1
			continue
		}
		rebuild := func(step string, repl []pline) {
			n := append([]pline{}, lines[:start]...)
			n = append(n, repl...)
			n = append(n, lines[i:]...)
			out = append(out, c13Variant{fmt.Sprintf("%s@%d", step, start), n})
		}
		if len(metas) >= 2 {
			rev := make([]pline, len(metas))
			for j := range metas {
				rev[len(metas)-1-j] = metas[j]
			}
			rebuild("meta-reorder", rev)
			var texts []string
			for _, m := range metas {
				texts = append(texts, m.Text)
			}
			rebuild("meta-semicolon-join", pl("meta", strings.Join(texts, "; ")))
			// join two declarations of the same type into one
			f0, f1 := strings.Fields(metas[0].Text), strings.Fields(metas[1].Text)
			if len(f0) == 3 && len(f1) == 3 && f0[2] == f1[2] {
				rebuild("meta-group", append(pl("meta", fmt.Sprintf("var %s, %s %s", f0[1], f1[1], f0[2])), metas[2:]...))
			}
		}
		for j, m := range metas {
			f := strings.Fields(strings.ReplaceAll(m.Text, ",", " "))
			if len(f) == 4 && f[0] == "var" { // var a, b T -> two declarations
				repl := append([]pline{}, metas[:j]...)
				repl = append(repl, pl("meta", fmt.Sprintf("var %s %s", f[1], f[3]), fmt.Sprintf("var %s %s", f[2], f[3]))...)
				repl = append(repl, metas[j+1:]...)
				rebuild("meta-split", repl)
			}
			repl := append([]pline{}, metas...)
			repl[j] = pline{"  " + strings.ReplaceAll(m.Text, " ", "   ") + "  ", "meta"}
			rebuild(fmt.Sprintf("meta-respace%d", j), repl)
		}
		start = -1
	}
	// T6: re-wrap at commas; T7: re-indent; T8: context <-> -/+ pair
	for i, l := range lines {
		if l.Region != "body" || len(l.Text) < 2 {
			continue
		}
		tag, txt := l.Text[:1], l.Text[1:]
		for k := 0; k < len(txt)-1; k++ {
			if txt[k] == ',' && strings.ContainsAny(txt[:k], "({") {
				n := append([]pline{}, lines[:i]...)
				n = append(n, pline{tag + txt[:k+1], "body"}, pline{tag + "\t" + strings.TrimLeft(txt[k+1:], " "), "body"})
				n = append(n, lines[i+1:]...)
				out = append(out, c13Variant{fmt.Sprintf("wrap@%d:%d", i, k), n})
			}
		}
		for _, ind := range []string{"  ", "\t"} {
			n := append([]pline{}, lines...)
			n[i] = pline{tag + ind + txt, "body"}
			out = append(out, c13Variant{fmt.Sprintf("indent@%d", i), n})
		}
		if tag == " " && !strings.Contains(txt, "...") && strings.TrimSpace(txt) != "" && !strings.HasPrefix(strings.TrimSpace(txt), "import") {
			n := append([]pline{}, lines[:i]...)
			n = append(n, pline{"-" + txt, "body"}, pline{"+" + txt, "body"})
			n = append(n, lines[i+1:]...)
			out = append(out, c13Variant{fmt.Sprintf("ctx-to-pair@%d", i), n})
		}
	}
	// T10: blanks inside brackets and parentheses around an ellipsis token ([...]T, f(...), g(..., x))
	for i, l := range lines {
		if l.Region != "body" || !strings.Contains(l.Text, "...") || len(l.Text) < 2 {
			continue
		}
		for k, r := range []*strings.Replacer{strings.NewReplacer("[...]", "[ ... ]"), strings.NewReplacer("(...)", "( ... )", "(...,", "( ...,", ", ...)", ", ... )"), strings.NewReplacer("[...]", "[... ]", "(...", "(  ...")} {
			if t := l.Text[:1] + r.Replace(l.Text[1:]); t != l.Text {
				n := append([]pline{}, lines...)
				n[i] = pline{t, "body"}
				out = append(out, c13Variant{fmt.Sprintf("respace-ellipsis%d@%d", k, i), n})
			}
		}
	}
	// T10b: a blank between the dots of a variadic parameter / argument and what follows (...T -> ... T)
	for i, l := range lines {
		if l.Region != "body" || len(l.Text) < 2 {
			continue
		}
		if t := l.Text[:1] + variadicRe.ReplaceAllString(l.Text[1:], "... $1"); t != l.Text {
			n := append([]pline{}, lines...)
			n[i] = pline{t, "body"}
			out = append(out, c13Variant{fmt.Sprintf("respace-variadic@%d", i), n})
		}
	}
	// T9: trailing blanks / tabs after the code of a body line (each line, and all at once)
	for i, l := range lines {
		if l.Region != "body" || len(l.Text) < 2 {
			continue
		}
		for k, ws := range []string{" ", "\t", "  \t "} {
			n := append([]pline{}, lines...)
			n[i] = pline{l.Text + ws, "body"}
			out = append(out, c13Variant{fmt.Sprintf("trail-ws%d@%d", k, i), n})
		}
	}
	{
		n := append([]pline{}, lines...)
		for i, l := range n {
			if l.Region == "body" && len(l.Text) >= 2 {
				n[i].Text = l.Text + " "
			}
		}
		out = append(out, c13Variant{"trail-ws-all", n})
	}
	// all body lines re-indented at once
	{
		n := append([]pline{}, lines...)
		for i, l := range n {
			if l.Region == "body" && len(l.Text) >= 1 {
				n[i].Text = l.Text[:1] + "    " + l.Text[1:]
			}
		}
		out = append(out, c13Variant{"indent-all", n})
	}
	return out
}

func c13Text(lines []pline) string {
	var b strings.Builder
	for _, l := range lines {
		b.WriteString(l.Text + "\n")
	}
	return b.String()
}

// c13Desc applies the rule: the description of a change is the run of '#'
// lines directly above its header.
func c13Desc(lines []pline) [][]string {
	var out [][]string
	for i, l := range lines {
		if l.Region != "header" {
			continue
		}
		var d []string
		for j := i - 1; j >= 0 && strings.HasPrefix(lines[j].Text, "#"); j-- {
			d = append([]string{strings.TrimSpace(lines[j].Text[1:])}, d...)
		}
		out = append(out, d)
	}
	return out
}

func c13Gen(tier string, emit func(any)) {
	for _, b := range c13Bases() {
		baseText := c13Text(b.lines)
		emitV := func(steps []string, lines []pline) {
			for fi, f := range b.files {
				modes := []string{"api"}
				if fi == 0 {
					modes = []string{"api", "cli"}
				}
				for _, m := range modes {
					emit(&C13Case{Base: b.id, Steps: steps, BaseText: baseText, Variant: c13Text(lines), File: f, Desc: c13Desc(lines), Mode: m})
					if len(steps) <= 1 {
						// the same patch file without its final newline
						emit(&C13Case{Base: b.id, Steps: append(append([]string{}, steps...), "no-final-newline"), BaseText: baseText, Variant: strings.TrimSuffix(c13Text(lines), "\n"), File: f, Desc: c13Desc(lines), Mode: m})
					}
				}
			}
		}
		emitV(nil, b.lines)
		for _, v1 := range c13Transforms(b, b.lines) {
			emitV([]string{v1.step}, v1.lines)
			if c13MaxSteps(tier) >= 2 {
				for _, v2 := range c13Transforms(b, v1.lines) {
					emitV([]string{v1.step, v2.step}, v2.lines)
					// triples: only for the short bases (the space grows with the cube of the patch length)
					if c13MaxSteps(tier) >= 3 && len(b.lines) <= 5 {
						for _, v3 := range c13Transforms(b, v2.lines) {
							emitV([]string{v1.step, v2.step, v3.step}, v3.lines)
						}
					}
				}
			}
		}
	}
}

func c13Run(env *core.Env, ci any) core.Outcome {
	c := ci.(*C13Case)
	o := core.Outcome{Transitions: 2}
	stepKind := "base"
	if len(c.Steps) > 0 {
		var ks []string
		for _, s := range c.Steps {
			ks = append(ks, strings.SplitN(strings.SplitN(s, "@", 2)[0], ":", 2)[0]+regionOf(s))
		}
		stepKind = strings.Join(ks, "+")
	}
	o.Class = stepKind
	bad := func(key, format string, a ...any) core.Outcome {
		o.Violation = fmt.Sprintf("[base %s, steps %v, %s] ", c.Base, c.Steps, c.Mode) + fmt.Sprintf(format, a...) + "\n--- base patch:\n" + c.BaseText + "--- variant:\n" + c.Variant + "--- file:\n" + c.File
		o.FindingKey = "C13:" + key + "/" + stepKind
		return o
	}
	apply := func(ptext string) (string, string) {
		pf, err := patch.Parse("l.patch", []byte(ptext))
		if err != nil {
			return "", "rejected: " + firstWords(stripPos(err.Error()), 12)
		}
		out, err := pf.Apply("a.go", []byte(c.File))
		if err != nil {
			return "", "apply error: " + firstWords(err.Error(), 12)
		}
		cs, perr := canon.Source(out, canon.Options{SortImports: true})
		if perr != nil {
			return "", "unparseable output"
		}
		return cs, ""
	}
	baseOut, baseErr := apply(c.BaseText)
	if strings.HasPrefix(baseErr, "rejected") {
		panic("harness: base patch rejected: " + baseErr + "\n" + c.BaseText)
	}
	inCanon, _ := canon.Source([]byte(c.File), canon.Options{SortImports: true})
	o.Nontrivial = baseErr == "" && baseOut != inCanon
	switch c.Mode {
	case "api":
		varOut, varErr := apply(c.Variant)
		if varErr != baseErr {
			if strings.HasPrefix(varErr, "rejected") {
				return bad("variant-rejected", "the re-laid-out patch is rejected (%s) while the base patch is accepted", varErr)
			}
			return bad("error-differs", "base: %q, variant: %q", baseErr, varErr)
		}
		if varOut != baseOut {
			return bad("result-differs", "the re-laid-out patch gives a syntactically different result")
		}
	case "cli":
		sb := newSandbox(env, "c13", map[string]string{"t/a.go": c.File, "v.patch": c.Variant})
		defer sb.remove()
		r := sb.run(false, "t", []string{"-p", sb.path("v.patch"), "--print-only", "a.go"}, "")
		if r.Panic != "" {
			return bad("panic", "gopatch crashed: %s", r.Panic)
		}
		if strings.Contains(r.Stderr, "load patch") {
			return bad("variant-rejected", "the re-laid-out patch is rejected by the CLI: %s", firstWords(r.Stderr, 14))
		}
		// the command line's own apply loop must give the base result as well
		switch {
		case baseErr == "" && r.Exit != 0:
			return bad("error-differs", "the base patch applies through the API but the CLI fails on the re-laid-out patch: %s", firstWords(r.Stderr, 14))
		case baseErr != "" && r.Exit == 0:
			return bad("error-differs", "the base patch fails through the API (%s) but the CLI succeeds on the re-laid-out patch", baseErr)
		case baseErr == "":
			cs, perr := canon.Source([]byte(r.Stdout), canon.Options{SortImports: true})
			if perr != nil || cs != baseOut {
				return bad("result-differs", "the re-laid-out patch gives a syntactically different result through the CLI (--print-only):\n%s", r.Stdout)
			}
		}
		allowed := map[string]bool{}
		for _, d := range c.Desc {
			for _, l := range d {
				allowed["a.go:"+l] = true
			}
		}
		var got []string
		for _, l := range strings.Split(strings.TrimSuffix(r.Stderr, "\n"), "\n") {
			if l == "" {
				continue
			}
			got = append(got, l)
			if !allowed[l] {
				return bad("description-not-above-header", "stderr reports %q, which is not a '#' line directly above a change header (descriptions by rule: %v)", l, c.Desc)
			}
		}
		if len(c.Desc) == 1 && o.Nontrivial && r.Exit == 0 {
			var want []string
			for _, l := range c.Desc[0] {
				want = append(want, "a.go:"+l)
			}
			if strings.Join(got, "\n") != strings.Join(want, "\n") {
				return bad("description-differs", "stderr descriptions %q, want %q", got, want)
			}
		}
	}
	return o
}

func regionOf(step string) string {
	if i := strings.Index(step, "("); i >= 0 {
		return step[i:]
	}
	return ""
}
