package props

import (
	"fmt"
	"path"
	"sort"
	"strings"

	"verifmc/canon"
	"verifmc/core"
)

// tnode is the in-memory model of a generated directory tree.
type tnode struct {
	Name string   `json:"n"`
	Kind string   `json:"k"` // file | dir | linkfile | linkdir
	Kids []*tnode `json:"c,omitempty"`
}

// C15Case is one tree x one argument list.
type C15Case struct {
	Tree *tnode   `json:"tree"` // the "work" directory (cwd of the run)
	Args []string `json:"args"` // "$ABS" is replaced by the absolute path of work
	// Contents (family "contents"): instead of a generated tree, the files work/a.go, work/b.go and work/sub/c.go
	// with these content kinds; the patch carries an import guard that every kind satisfies.
	Contents []string `json:"contents,omitempty"`
	// Via (family "links"): the same tree reached through a symbolic link: "cwd" = the current directory is entered
	// through a link to work ($PWD names the link); "ancestor" = every argument is given twice, once directly and
	// once through a link to work (a symlinked ancestor; neither the argument nor the files are links themselves).
	Via string `json:"via,omitempty"`
}

// c15ContentKinds: Go files that all import "strings" without a name, in every spelling and layout the language
// allows, and contain the site. Whatever a requested file looks like, it is processed.
var c15ContentKinds = map[string]string{
	"plain":        "package a\n\nimport \"strings\"\n\nvar x = v0\n\nvar _ = strings.ToUpper\n",
	"raw":          "package a\n\nimport `strings`\n\nvar x = v0\n\nvar _ = strings.ToUpper\n",
	"escaped":      "package a\n\nimport \"string\\x73\"\n\nvar x = v0\n\nvar _ = strings.ToUpper\n",
	"grouped-one":  "package a\n\nimport (\n\t\"strings\"\n)\n\nvar x = v0\n\nvar _ = strings.ToUpper\n",
	"grouped":      "package a\n\nimport (\n\t\"os\"\n\t\"strings\"\n)\n\nvar x = v0\n\nvar _, _ = strings.ToUpper, os.Args\n",
	"empty-group":  "package a\n\nimport ()\n\nimport \"strings\"\n\nvar x = v0\n\nvar _ = strings.ToUpper\n",
	"cgo":          "package a\n\n/*\n#include <stdio.h>\n*/\nimport \"C\"\n\nimport \"strings\"\n\nvar x = v0\n\nvar _ = strings.ToUpper(C.GoString(nil))\n",
	"crlf":         "package a\r\n\r\nimport \"strings\"\r\n\r\nvar x = v0\r\n\r\nvar _ = strings.ToUpper\r\n",
	"bom":          "\xef\xbb\xbfpackage a\n\nimport \"strings\"\n\nvar x = v0\n\nvar _ = strings.ToUpper\n",
	"no-newline":   "package a\n\nimport \"strings\"\n\nvar x = v0\n\nvar _ = strings.ToUpper",
	"semicolons":   "package a; import \"strings\"; var x = v0; var _ = strings.ToUpper\n",
	"shadowed":     "package a\n\nimport \"strings\"\n\nvar x = v0\n\nfunc f(strings T) { strings.M() }\n",
	"dot-and-name": "package a\n\nimport (\n\t. \"fmt\"\n\t\"strings\"\n\tstr2 \"strings\"\n)\n\nvar x = v0\n\nvar _, _ = strings.ToUpper, str2.ToLower\n",
}

var c15ContentOrder = []string{"plain", "raw", "escaped", "grouped-one", "grouped", "empty-group", "cgo", "crlf", "bom", "no-newline", "semicolons", "shadowed", "dot-and-name"}

const c15GuardedPatch = "@@\n@@\n import \"strings\"\n\n-v0\n+v0 + 1\n"

const (
	c15Src     = "package a\n\nvar x = v0\n"
	c15Patched = "package a\n\nvar x = v0 + 1\n"
	c15Patch   = "@@\n@@\n-v0\n+v0 + 1\n"
)

func init() {
	core.Register(&core.Property{
		ID:    "C15",
		Level: "model_checking",
		Rule: "universe = (contents) every assignment of 13 content kinds (import spelled raw / escaped / grouped / next to an empty group / next to cgo, CRLF, BOM, no final newline, semicolons, shadowed package name) to the requested files of a fixed tree, under a patch with an import guard: each is processed exactly once; (trees) directory trees from a grammar (depth <=3; per directory subsets of {a.go, b.txt, .x.go, c.go->symlink to a file outside, l->symlink to a directory outside, d.go/ directory, sub/, vendor/, testdata/, .h/, _u/}) x argument lists (length 1..2, thorough ..3) derived from the tree: '.', './...', '...', absolute, dir, dir/..., explicit files (also inside excluded directories), symlinks, non-Go files, duplicates, overlapping dir+file, abs+rel of the same path. " +
			"Patch is the non-idempotent v0 -> v0 + 1 so that 'exactly once' is visible in the bytes; oracle = a reference walk of the in-memory tree written from the statement + whole-tree snapshot + -v lines in sorted order. non-trivial = the tree contains at least one excluded directory or symlink and at least one processed file",
		Assumptions: []string{"all arguments exist (missing paths are C16's subject)", "the scratch directory itself has an ordinary name"},
		Bounds:      func(tier string) map[string]any { return map[string]any{"depth": 3, "max_args": c15MaxArgs(tier)} },
		NewCase:     func() any { return &C15Case{} },
		Gen:         c15Gen,
		Run:         c15Run,
		Setup:       cliSetup,
	})
}

func c15MaxArgs(tier string) int {
	if tier == "thorough" {
		return 3
	}
	return 2
}

// "@name" is a symlink (to a directory outside) carrying that name
var c15DirKinds = []string{"sub", "vendor", "testdata", ".h", "_u", "d.go", "l", "@vendor", "@_l", "@.d", "zz"}

func c15Files(set int) []*tnode {
	switch set {
	case 0:
		return nil
	case 1:
		return []*tnode{{Name: "a.go", Kind: "file"}}
	case 2:
		return []*tnode{{Name: "a.go", Kind: "file"}, {Name: "b.txt", Kind: "file"}, {Name: "c.go", Kind: "linkfile"}, {Name: ".x.go", Kind: "file"}}
	case 3:
		return []*tnode{{Name: ".x.go", Kind: "file"}, {Name: "b.txt", Kind: "file"}, {Name: "z_test.go", Kind: "file"}}
	case 5:
		// things that are named like Go files or hold Go files but are neither: a named pipe, a link to one,
		// directories whose names end in .go and start like excluded ones
		return []*tnode{{Name: "a.go", Kind: "file"}, {Name: "p.go", Kind: "fifo"}, {Name: "q.go", Kind: "linkfifo"},
			{Name: "_u.go", Kind: "dir", Kids: []*tnode{{Name: "a.go", Kind: "file"}}}, {Name: ".h.go", Kind: "dir", Kids: []*tnode{{Name: "a.go", Kind: "file"}}},
			{Name: "pkg.go", Kind: "dir", Kids: []*tnode{{Name: "a.go", Kind: "file"}}}, {Name: "z.go", Kind: "file"}}
	default:
		// a dangling symlink with an excluded-style name (editor lock file) between regular files
		return []*tnode{{Name: ".#m.go", Kind: "danglink"}, {Name: "_s.go", Kind: "linkfile"}, {Name: "a.go", Kind: "file"}, {Name: "testdata.go", Kind: "file"}, {Name: "z.go", Kind: "file"}}
	}
}

func c15Dir(name string, files []*tnode, kids ...*tnode) *tnode {
	if name == "l" || strings.HasPrefix(name, "@") {
		return &tnode{Name: strings.TrimPrefix(name, "@"), Kind: "linkdir"}
	}
	n := &tnode{Name: name, Kind: "dir"}
	n.Kids = append(n.Kids, files...)
	n.Kids = append(n.Kids, kids...)
	return n
}

// child variants of a level-2 directory named name
func c15ChildVariants(name string, nested bool) []*tnode {
	if name == "l" || strings.HasPrefix(name, "@") {
		return []*tnode{c15Dir(name, nil)}
	}
	vs := []*tnode{c15Dir(name, c15Files(1))}
	if nested {
		vs = append(vs, c15Dir(name, c15Files(2)))
		for _, k := range c15DirKinds {
			vs = append(vs, c15Dir(name, c15Files(1), c15Dir(k, c15Files(1))))
			vs = append(vs, c15Dir(name, c15Files(4), c15Dir(k, c15Files(4)), c15Dir("zz", c15Files(1))))
		}
		vs = append(vs, c15Dir(name, c15Files(5)))
		// depth 3 below an ordinary directory
		vs = append(vs, c15Dir(name, nil, c15Dir("sub", c15Files(1), c15Dir("vendor", c15Files(1)), c15Dir("ok", c15Files(1)))))
	}
	return vs
}

func c15DupNames(t *tnode) bool {
	seen := map[string]bool{}
	for _, k := range t.Kids {
		if seen[k.Name] {
			return true
		}
		seen[k.Name] = true
		if c15DupNames(k) {
			return true
		}
	}
	return false
}

// c15CurFS is the index of the top-level file set of the tree being yielded (generator-internal).
var c15CurFS int

func c15Trees(tier string, yield0 func(*tnode)) {
	yield := func(t *tnode) {
		if !c15DupNames(t) {
			yield0(t)
		}
	}
	thorough := tier == "thorough"
	// sibling directories whose names are prefixes of one another followed by a byte below '/': the order in which
	// a walk meets the files differs from the order of their paths
	for fs := 0; fs < 5; fs++ {
		c15CurFS = fs
		yield(c15Dir("work", c15Files(fs), c15Dir("api", c15Files(4)), c15Dir("api-v2", c15Files(1)), c15Dir("api.old", c15Files(1)), c15Dir("api0", c15Files(1), c15Dir("api", c15Files(1)), c15Dir("api!", c15Files(1)))))
		yield(c15Dir("work", c15Files(fs), c15Dir("sub", c15Files(1), c15Dir("x", c15Files(1))), c15Dir("sub-x", c15Files(1)), c15Dir("sub.go", c15Files(1))))
	}
	// hard-linked regular files (also beneath an excluded directory) and symbolic links that form cycles
	for fs := 0; fs < 5; fs++ {
		c15CurFS = fs
		hl := &tnode{Name: "h.go", Kind: "hlfile"}
		yield(c15Dir("work", append(c15Files(fs), hl), c15Dir("sub", c15Files(1)), c15Dir("vendor", []*tnode{{Name: "v.go", Kind: "file"}})))
		yield(c15Dir("work", c15Files(fs), c15Dir("vendor", []*tnode{{Name: "h.go", Kind: "hlfile"}}), c15Dir("pkg", c15Files(1))))
		yield(c15Dir("work", c15Files(fs), c15Dir("a", append(c15Files(1), &tnode{Name: "to-b", Kind: "linkpeer"})), c15Dir("b", append(c15Files(1), &tnode{Name: "to-a", Kind: "linkpeer"}, &tnode{Name: "up", Kind: "linkup"}))))
	}
	for fs := 0; fs < 5; fs++ {
		c15CurFS = fs
		yield(c15Dir("work", c15Files(fs)))
		for i, k := range c15DirKinds {
			for _, v := range c15ChildVariants(k, true) {
				yield(c15Dir("work", c15Files(fs), v))
			}
			for j := i + 1; j < len(c15DirKinds); j++ {
				k2 := c15DirKinds[j]
				if strings.TrimPrefix(k, "@") == strings.TrimPrefix(k2, "@") {
					continue // same name twice in one directory
				}
				for _, v1 := range c15ChildVariants(k, thorough) {
					for _, v2 := range c15ChildVariants(k2, thorough) {
						yield(c15Dir("work", c15Files(fs), v1, v2))
					}
				}
			}
		}
	}
}

// c15Candidates lists argument forms derived from the tree.
func c15Candidates(t *tnode) []string {
	// incl. spellings that are not in canonical form
	c := []string{".", "./...", "...", "$ABS", "$ABS/...", "$ABS/.", "$ABS/./...", "./."}
	var walk func(n *tnode, rel string, depth int)
	walk = func(n *tnode, rel string, depth int) {
		for _, k := range n.Kids {
			p := path.Join(rel, k.Name)
			switch k.Kind {
			case "file", "hlfile", "linkfile", "danglink":
				if k.Kind == "danglink" {
					continue // naming a dangling link is a failing path (C16)
				}
				if depth == 0 || k.Name == "a.go" {
					c = append(c, p)
				}
				if k.Name == "a.go" && depth == 1 {
					c = append(c, "$ABS/"+p, p+"...", "$ABS/./"+p, path.Dir(p)+"/./a.go")
				}
			case "dir":
				c = append(c, p, p+"/...")
				if depth == 0 {
					c = append(c, "$ABS/"+p, p+"...", "./"+p+"/", "$ABS/"+p+"/..", p+"/../"+p, "$ABS/"+p+"/.")
				}
				walk(k, p, depth+1)
			case "linkdir", "linkup", "linkpeer":
				c = append(c, p, p+"/...")
			}
		}
	}
	walk(t, "", 0)
	return c
}

func c15Gen(tier string, emit func(any)) {
	// links: every tree x every single argument, with the tree reached through a symbolic link
	c15Trees(tier, func(t *tnode) {
		for _, a := range c15Candidates(t) {
			if strings.HasPrefix(a, "$ABS") {
				continue
			}
			emit(&C15Case{Tree: t, Args: []string{a}, Via: "ancestors"})
			emit(&C15Case{Tree: t, Args: []string{a}, Via: "cwd"})
			emit(&C15Case{Tree: t, Args: []string{a}, Via: "ancestor"})
		}
	})
	// contents: every assignment of content kinds to three requested files (quick: every pair of kinds on a.go and
	// sub/c.go with b.go plain; thorough: all triples)
	for _, ka := range c15ContentOrder {
		for _, kb := range c15ContentOrder {
			if tier != "thorough" && kb != "plain" {
				continue
			}
			for _, kc := range c15ContentOrder {
				for _, args := range [][]string{{"."}, {"./...", "a.go"}} {
					emit(&C15Case{Contents: []string{ka, kb, kc}, Args: args})
				}
			}
		}
	}
	c15Trees(tier, func(t *tnode) {
		cands := c15Candidates(t)
		for _, a := range cands {
			emit(&C15Case{Tree: t, Args: []string{a}})
		}
		// pairs
		for i, a := range cands {
			for j, b := range cands {
				if tier != "thorough" && c15CurFS != 2 && c15CurFS != 4 && i != j && len(t.Kids) > 3 {
					continue // quick: pairs on the trees with the two richest top-level file sets, and on the small trees
				}
				if tier != "thorough" {
					// quick: duplicates, anything with ".", and prefix-related pairs (overlap)
					rel := func(s string) string {
						return strings.TrimSuffix(strings.TrimSuffix(strings.TrimPrefix(strings.TrimPrefix(s, "$ABS/"), "./"), "..."), "/")
					}
					ra, rb := rel(a), rel(b)
					overlap := ra == rb || strings.HasPrefix(rb, ra+"/") || strings.HasPrefix(ra, rb+"/")
					if !(i == j || a == "." || b == "." || overlap) {
						continue
					}
					// two differently odd spellings together add nothing over each of them with a canonical partner
					odd := func(s string) bool {
						return strings.Contains(s, "/./") || strings.Contains(s, "/..") && !strings.HasSuffix(s, "/...") || strings.HasSuffix(s, "/.") || strings.Contains(s, "/../")
					}
					if i != j && odd(a) && odd(b) {
						continue
					}
				}
				emit(&C15Case{Tree: t, Args: []string{a, b}})
			}
		}
		// triples (quick): the same argument three times, and chains in which every pair overlaps
		if tier != "thorough" {
			rel := func(s string) string {
				s = strings.TrimSuffix(s, "...")
				s = strings.TrimPrefix(s, "$ABS")
				return path.Clean("/" + s)[1:]
			}
			over := func(a, b string) bool {
				ra, rb := rel(a), rel(b)
				return ra == rb || ra == "" || rb == "" || strings.HasPrefix(rb, ra+"/") || strings.HasPrefix(ra, rb+"/")
			}
			n := 0
			for ai, a := range cands {
				if ai%3 == 0 {
					emit(&C15Case{Tree: t, Args: []string{a, a, a}})
				}
				for _, b := range cands {
					for _, d := range cands {
						if a != b && b != d && a != d && over(a, b) && over(b, d) && over(a, d) && rel(a) != "" && rel(b) != "" && rel(d) != "" && n < 4 {
							n++
							emit(&C15Case{Tree: t, Args: []string{a, b, d}})
						}
					}
				}
			}
		}
		if tier == "thorough" && len(cands) <= 14 {
			for _, a := range cands {
				for _, b := range cands {
					for _, d := range cands {
						emit(&C15Case{Tree: t, Args: []string{a, b, d}})
					}
				}
			}
		}
	})
}

func c15Excluded(name string) bool {
	return name == "vendor" || name == "testdata" || strings.HasPrefix(name, ".") || strings.HasPrefix(name, "_")
}

// c15Expected is the reference walk, written from the statement.
func c15Expected(t *tnode, args []string) []string {
	set := map[string]bool{}
	var beneath func(n *tnode, rel string)
	beneath = func(n *tnode, rel string) {
		if c15Excluded(n.Name) {
			return // files reached through an excluded directory
		}
		for _, k := range n.Kids {
			p := path.Join(rel, k.Name)
			switch k.Kind {
			case "file", "hlfile":
				if strings.HasSuffix(k.Name, ".go") {
					set[p] = true
				}
			case "dir":
				beneath(k, p)
			}
			// symlinks: never
		}
	}
	for _, a := range args {
		a = strings.TrimSuffix(a, "...") // a trailing '...' is ignored
		a = strings.TrimPrefix(a, "$ABS")
		a = path.Clean("/" + a)[1:]
		// find node
		n := t
		ok := true
		if a != "" {
			for _, part := range strings.Split(a, "/") {
				var next *tnode
				for _, k := range n.Kids {
					if k.Name == part {
						next = k
					}
				}
				if next == nil {
					ok = false
					break
				}
				n = next
			}
		}
		if !ok {
			panic("argument does not exist in tree: " + a)
		}
		switch n.Kind {
		case "file", "hlfile":
			if strings.HasSuffix(n.Name, ".go") {
				set[a] = true // a file named explicitly is processed wherever it lives
			}
		case "dir":
			beneath(n, a)
		}
	}
	var out []string
	for p := range set {
		out = append(out, p)
	}
	sort.Strings(out)
	return out
}

func c15Materialize(t *tnode, root, workRel string) map[string]string {
	files := map[string]string{
		"outside/o.go":    c15Src,
		"outside/h.go":    c15Src,
		"outside/od/p.go": c15Src,
		"outside/pipe":    "|fifo",
		"p.patch":         c15Patch,
	}
	var walk func(n *tnode, rel string)
	walk = func(n *tnode, rel string) {
		files[rel+"/"] = ""
		for _, k := range n.Kids {
			p := rel + "/" + k.Name
			switch k.Kind {
			case "file":
				files[p] = c15Src
			case "linkfile":
				files[p] = "->" + root + "/outside/o.go"
			case "linkdir":
				files[p] = "->" + root + "/outside/od"
			case "danglink":
				files[p] = "->" + root + "/outside/nonexistent"
			case "fifo":
				files[p] = "|fifo"
			case "linkfifo":
				files[p] = "->" + root + "/outside/pipe"
			case "hlfile": // a regular file with a second name outside the tree
				files[p] = "=>" + root + "/outside/h.go"
			case "linkup": // a symbolic link to an ancestor: following it never ends
				files[p] = "->.."
			case "linkpeer": // two directories that link to each other
				files[p] = "->../" + strings.TrimPrefix(k.Name, "to-")
			case "dir":
				walk(k, p)
			}
		}
	}
	walk(t, workRel)
	files["wlink"] = "->work"
	return files
}

// c15RunContents: whatever the requested files look like, each is processed exactly once.
func c15RunContents(env *core.Env, c *C15Case) core.Outcome {
	names := []string{"a.go", "b.go", "sub/c.go"}
	judge := func(real bool) core.Outcome {
		out := core.Outcome{Nontrivial: true, Class: "contents"}
		bad := func(key, f string, a ...any) core.Outcome {
			out.Violation = fmt.Sprintf("[contents %v, args %v] ", c.Contents, c.Args) + fmt.Sprintf(f, a...)
			out.FindingKey = key
			return out
		}
		tree := map[string]string{"p.patch": c15GuardedPatch}
		for i, n := range names {
			src, ok := c15ContentKinds[c.Contents[i]]
			if !ok {
				panic("harness: unknown content kind " + c.Contents[i])
			}
			tree["work/"+n] = src
		}
		sb := newSandbox(env, "c15c", tree)
		defer sb.remove()
		r := sb.run(real, "work", append([]string{"-p", sb.path("p.patch")}, c.Args...), "")
		if r.Panic != "" {
			return bad("panic", "gopatch crashed: %s", r.Panic)
		}
		if r.Exit != 0 {
			return bad("exit", "exit %d, stderr %q", r.Exit, r.Stderr)
		}
		for i, n := range names {
			src := c15ContentKinds[c.Contents[i]]
			got := sb.read("work/" + n)
			want, err := canon.Source([]byte(strings.Replace(src, "= v0", "= v0 + 1", 1)), canon.Options{MaskImports: true})
			if err != nil {
				panic("harness: content kind does not parse: " + err.Error())
			}
			if got == src {
				return bad("not-processed", "file %s (%s) was requested and the patch applies to it, but it is unchanged", n, c.Contents[i])
			}
			if gc, err := canon.Source([]byte(got), canon.Options{MaskImports: true}); err != nil || gc != want {
				return bad("processed-wrong", "file %s (%s) was not rewritten exactly once: %q (%v)", n, c.Contents[i], got, err)
			}
		}
		return out
	}
	return believeIfReal(judge)
}

func c15Run(env *core.Env, ci any) core.Outcome {
	c := ci.(*C15Case)
	if len(c.Contents) > 0 {
		return c15RunContents(env, c)
	}
	expected := c15Expected(c.Tree, c.Args)
	special := false
	var scan func(n *tnode)
	scan = func(n *tnode) {
		for _, k := range n.Kids {
			if k.Kind != "file" && (k.Kind != "dir" || c15Excluded(k.Name) || k.Name == "d.go") {
				special = true
			}
			scan(k)
		}
	}
	scan(c.Tree)
	judge := func(real bool) core.Outcome {
		out := core.Outcome{Nontrivial: special && len(expected) > 0, Class: fmt.Sprintf("processed=%d", len(expected))}
		bad := func(key, f string, a ...any) core.Outcome {
			out.Violation = fmt.Sprintf(f, a...) + fmt.Sprintf("\nargs=%v expected=%v", c.Args, expected)
			out.FindingKey = key
			return out
		}
		root := env.Scratch + "/c15"
		workRel := "work"
		if c.Via == "ancestors" { // the tree lives below directories with excluded-style names
			workRel = ".ci/_stage/testdata/vendor/work"
		}
		sb := newSandbox(env, "c15", c15Materialize(c.Tree, root, workRel))
		defer sb.remove()
		before := sb.snap("")
		args := []string{"-p", sb.path("p.patch"), "-v"}
		for _, a := range c.Args {
			args = append(args, strings.ReplaceAll(a, "$ABS", sb.path(workRel)))
		}
		cwd := workRel
		switch c.Via {
		case "cwd":
			cwd = "wlink"
		case "ancestor":
			for _, a := range c.Args {
				if !strings.HasPrefix(a, "$ABS") {
					args = append(args, "../wlink/"+a)
				}
			}
		}
		r := sb.run(real, cwd, args, "")
		if r.Panic != "" {
			return bad("panic", "gopatch crashed: %s", r.Panic)
		}
		if r.Exit != 0 {
			return bad("exit", "exit %d, stderr %q", r.Exit, r.Stderr)
		}
		after := sb.snap("")
		exp := map[string]bool{}
		for _, p := range expected {
			exp[workRel+"/"+p] = true
		}
		for p, ea := range after {
			eb, ok := before[p]
			if !ok {
				return bad("created", "entry created: %s", p)
			}
			if exp[p] {
				got := sb.read(p)
				if got != c15Patched {
					if got == c15Src {
						return bad("not-processed", "file %s should have been processed but is unchanged", p)
					}
					return bad("processed-wrong", "file %s processed more than once or wrongly: %q", p, got)
				}
				continue
			}
			if ea != eb {
				return bad("touched", "entry %s is not among the requested files but was touched:\n before %v\n after  %v", p, eb, ea)
			}
		}
		for p := range before {
			if _, ok := after[p]; !ok {
				return bad("removed", "entry removed: %s", p)
			}
		}
		// the -v log mentions exactly the processed files, once each, in path order (wording is free)
		rest := strings.ReplaceAll(r.Stdout, sb.path("wlink"), sb.path("work"))
		for _, p := range expected {
			var ok bool
			if rest, ok = cutLogLine(rest, sb.path(workRel+"/"+p)); !ok {
				return bad("order-or-log", "-v log: expected a line about %s next, log is %q", p, r.Stdout)
			}
		}
		if rest != "" {
			return bad("order-or-log", "-v log has extra lines: %q (expected files %v)", rest, expected)
		}
		return out
	}
	return believeIfReal(judge)
}
