package props

import (
	"fmt"
	"go/ast"
	"go/parser"
	"go/token"
	"sort"
	"strings"

	"github.com/uber-go/gopatch/patch"

	"verifmc/canon"
	"verifmc/core"
	"verifmc/model"
)

// C17Case: a three-declaration skeleton with comments placed in some slots.
type C17Case struct {
	PatchID string            `json:"patch_id"`
	Changes []*model.Change   `json:"changes"`
	Slots   map[string]string `json:"slots"` // slot -> comment text placed there
	Sites   string            `json:"sites"` // which declarations contain instances: d2 | d2+d3 | d4 ; suffix "/funcs": all declarations are functions
	File    string            `json:"file"`
	Mode    string            `json:"mode,omitempty"` // "" = library API | cli (main.go has its own copy of the comment clean-up)
}

func init() {
	core.Register(&core.Property{
		ID:    "C17",
		Level: "model_checking",
		Rule: "universe = skeleton of three top-level declarations (struct type / function containing the site / variable) with 19 comment slots (file header, build directive, package doc, package-line trailer, free-standing between declarations, doc of each declaration, own-line and end-of-line inside each, inside an expression, trailing each declaration, end of file) x every placement of <=2 (thorough <=3) comments of kind {// , /* */, //go: directive} x 7 changes (expression, statement insert, statement with elision, whole function declaration, type declaration, value declaration, expression + import) x sites in {function, function+variable} x {library API, command line}. " +
			"Oracle: for every declaration whose canonical syntax is unchanged, the list of its comments (doc group, comments inside its extent, comment on its last line) is identical in input and output; same for the comments up to the package clause; the multiset of all output comments is contained in the input's. non-trivial = at least one comment placed and the change applies",
		Assumptions: []string{"comments separated from declarations by blank lines on both sides belong to no declaration and are only subject to the multiset rule"},
		Bounds: func(tier string) map[string]any {
			return map[string]any{"slots": len(c17SlotOrder), "max_comments": c17Max(tier)}
		},
		NewCase: func() any { return &C17Case{} },
		Gen:     c17Gen,
		Setup:   cliSetup,
		Run:     c17Run,
	})
}

func c17Max(tier string) int {
	if tier == "thorough" {
		return 3
	}
	return 2
}

// slot kinds: own (own-line: // or /* */ or directive), eol (end of line: // or /* */), mid (inside an expression: /* */ only)
var c17SlotOrder = []string{"header", "build", "pkgdoc", "pkgtrail", "pkgtrail2", "imp1doc", "imp1trail", "imp2doc", "imp2trail", "free1", "d1doc", "d1open", "d1in", "d1own", "d1trail", "d1trail0", "d1trail2", "free2", "d2doc", "d2own", "d2eol", "d2mid", "d2end", "d2trail", "d2trail2", "free3", "d3doc", "d3trail", "eof"}

var c17SlotKind = map[string]string{"header": "own", "build": "build", "pkgdoc": "own", "pkgtrail": "eolpkg", "pkgtrail2": "eol2", "free1": "own", "d1doc": "own", "d1open": "eol", "d1in": "eol", "d1own": "own",
	"imp1doc": "own", "imp1trail": "eol", "imp2doc": "own", "imp2trail": "eol", "d1trail": "eol", "d1trail0": "eol0", "d1trail2": "eol2", "d2trail2": "eol2", "free2": "own", "d2doc": "own", "d2own": "own", "d2end": "own", "d2eol": "eol", "d2mid": "mid", "d2trail": "eol", "free3": "own", "d3doc": "own", "d3trail": "eol", "eof": "own"}

func c17Render(slots map[string]string, sites string) string {
	imps2 := strings.HasSuffix(sites, "/imps2") // the file has two import declarations, which the patch does not mention
	sites = strings.TrimSuffix(sites, "/imps2")
	imp := strings.HasSuffix(sites, "/imp") // the file has one import, which the patch removes or replaces; the site refers to it
	sites = strings.TrimSuffix(sites, "/imp")
	funcs := strings.HasSuffix(sites, "/funcs")
	sites = strings.TrimSuffix(sites, "/funcs")
	siteFirst := strings.HasSuffix(sites, "/sitefirst") // the declaration containing the site is the first of the file
	sites = strings.TrimSuffix(sites, "/sitefirst")
	siteLast := strings.HasSuffix(sites, "/sitelast") // ... the last of the file
	sites = strings.TrimSuffix(sites, "/sitelast")
	own := func(s, indent string) string {
		if c, ok := slots[s]; ok {
			return indent + c + "\n"
		}
		return ""
	}
	eol := func(s string) string {
		if c, ok := slots[s]; ok {
			return " " + c
		}
		if c, ok := slots[s+"0"]; ok { // trailing comment glued to the last token
			return c
		}
		if c, ok := slots[s+"2"]; ok { // trailing comment that continues on the next line
			return " " + c + "\n" + strings.Replace(c, "// c", "// second line of c", 1)
		}
		return ""
	}
	free := func(s string) string {
		if c, ok := slots[s]; ok {
			return c + "\n\n"
		}
		return ""
	}
	var b strings.Builder
	b.WriteString(free("header"))
	b.WriteString(free("build"))
	b.WriteString(own("pkgdoc", ""))
	b.WriteString("package p" + eol("pkgtrail") + "\n\n")
	if imp {
		b.WriteString("import \"old/p\"\n\n")
	}
	if imps2 {
		b.WriteString(own("imp1doc", "") + "import \"fmt\"" + eol("imp1trail") + "\n\n" + own("imp2doc", "") + "import \"os\"" + eol("imp2trail") + "\n\n")
	}
	head := b.String()
	b.Reset()
	b.WriteString(free("free1"))
	b.WriteString(own("d1doc", ""))
	if funcs {
		b.WriteString("func first() {" + eol("d1open") + "\n\ta()" + eol("d1in") + "\n" + own("d1own", "\t") + "\tb()\n}" + eol("d1trail") + "\n\n")
	} else {
		b.WriteString("type T struct {" + eol("d1open") + "\n\ta int" + eol("d1in") + "\n" + own("d1own", "\t") + "\tb string\n}" + eol("d1trail") + "\n\n")
	}
	blockD1 := b.String()
	b.Reset()
	b.WriteString(free("free2"))
	b.WriteString(own("d2doc", ""))
	mid := ""
	if c, ok := slots["d2mid"]; ok {
		mid = c + " "
	}
	call := "foo(1)"
	if sites == "d4" {
		call = "bar(1)"
	}
	if imp {
		call = "p.Foo(1)"
	}
	// a comment at the end of the site function's body, after a blank line (go/ast attributes it to what follows)
	endOfBody := ""
	if c, ok := slots["d2end"]; ok {
		endOfBody = "\n\t" + c + "\n"
	}
	b.WriteString("func site() {\n\tpre()\n" + own("d2own", "\t") + "\t" + call + eol("d2eol") + "\n\tmid(" + mid + "2)\n" + endOfBody + "}" + eol("d2trail") + "\n\n")
	blockD2 := b.String()
	b.Reset()
	switch {
	case siteFirst:
		b.WriteString(head + blockD2 + blockD1)
	case siteLast:
		b.WriteString(head + blockD1)
	default:
		b.WriteString(head + blockD1 + blockD2)
	}
	b.WriteString(free("free3"))
	b.WriteString(own("d3doc", ""))
	v := "other(3)"
	if sites == "d2+d3" {
		v = "foo(3)"
	}
	if funcs {
		b.WriteString("func last() {\n\t" + v + "\n}" + eol("d3trail") + "\n")
	} else {
		b.WriteString("var last = " + v + eol("d3trail") + "\n")
	}
	if sites == "d4" {
		b.WriteString("\nfunc tail() {\n\tfoo(4)\n}\n")
	}
	if siteLast {
		b.WriteString("\n" + strings.TrimSuffix(blockD2, "\n"))
	}
	if c, ok := slots["eof"]; ok {
		b.WriteString("\n" + c + "\n")
	}
	return b.String()
}

func c17Patches() map[string][]*model.Change {
	single := c17Single()
	out := map[string][]*model.Change{}
	for id, ch := range single {
		out[id] = []*model.Change{ch}
	}
	// two changes applied to the same file
	for _, pair := range [][2]string{{"expr", "funcdecl-replace"}, {"valuedecl", "funcdecl-replace"}, {"valuedecl", "funcdecl"}, {"typedecl", "expr"}, {"expr", "typedecl-replace"}, {"funcdecl-replace", "valuedecl"},
		{"noop", "funcdecl-replace"}, {"pkg-rename", "funcdecl-replace"}, {"noop", "vardecl-to-const"}, {"pkg-rename", "typedecl-replace"}} {
		out[pair[0]+"+"+pair[1]] = []*model.Change{single[pair[0]], single[pair[1]]}
	}
	return out
}

func c17Single() map[string]*model.Change {
	xm := []model.MetaVar{{Name: "x", Kind: "expression"}}
	return map[string]*model.Change{
		"funcdecl-replace": {Kind: "decl", Lines: model.L("-func site() {", "-DOTS_1", "-}", "+var site = 1")},
		"typedecl-replace": {Kind: "decl", Lines: model.L("-type T struct {", "-DOTS_1", "-}", "+type T = int")},
		"vardecl-to-const": {Kind: "decl", Meta: xm, Lines: model.L("-var last = x", "+const last = 3")},
		"expr":             {Kind: "expr", Meta: xm, Lines: model.L("-foo(x)", "+mark(x)")},
		"noop":             {Kind: "expr", Meta: xm, Lines: model.L("-pre()", "+pre()")},
		"pkg-rename":       {Kind: "expr", PkgMinus: "p", PkgPlus: "q", Lines: model.L("-pre()", "+pre()")},
		"stmt-insert":      {Kind: "stmts", Meta: xm, Lines: model.L(" foo(x)", "+added(x)")},
		"stmt-elision":     {Kind: "stmts", Meta: xm, Lines: model.L("-pre()", " DOTS_1", "-mid(x)", "+mark(x)")},
		"funcdecl":         {Kind: "decl", Lines: model.L("-func site() {", "+func renamed() {", " DOTS_1", " }")},
		"typedecl":         {Kind: "decl", Lines: model.L(" type T struct {", "-a int", "+a int64", " DOTS_1", " }")},
		"valuedecl":        {Kind: "decl", Meta: xm, Lines: model.L("-var last = x", "+var last = mark(x)")},
		// on files whose only import is "old/p" (sites .../imp): the import declaration disappears / is replaced
		"expr-import":  {Kind: "expr", Meta: xm, Imports: []model.Import{{Tag: "-", Path: "old/p"}}, Lines: model.L("-p.Foo(x)", "+mark(x)")},
		"expr-+import": {Kind: "expr", Meta: xm, Imports: []model.Import{{Tag: "-", Path: "old/p"}, {Tag: "+", Path: "new/q"}}, Lines: model.L("-p.Foo(x)", "+q.Foo(x)")},
		"expr+import":  {Kind: "expr", Meta: xm, Imports: []model.Import{{Tag: "+", Path: "new/q"}}, Lines: model.L("-foo(x)", "+q.Mark(x)")},
	}
}

func c17Gen(tier string, emit func(any)) {
	// (emitted first: the thorough tier stops at its time budget before the end of the slot universe)
	// equal-decls: a commented function among value declarations, some of which the rewrite makes equal to others
	// (S: "var _ = foo(i)", rewritten to bar(i); B: "var _ = bar(j)"): every sequence over {S, B} of length <= 6
	// (thorough 8) with at least one S x every position of the function
	eq := &model.Change{Kind: "expr", Meta: []model.MetaVar{{Name: "a", Kind: "expression"}}, Lines: model.L("-foo(a)", "+bar(a)")}
	const fnU = "// U doc.\nfunc U() {\n\t// inside U\n\tkeep() // trailing keep\n\t/* block in U */\n} // trailing U\n"
	maxN := 6
	if tier == "thorough" {
		maxN = 8
	}
	for n := 1; n <= maxN; n++ {
		for mask := 0; mask < 1<<n; mask++ {
			if mask == 1<<n-1 {
				continue // no S
			}
			for upos := 0; upos <= n; upos++ {
				var decls []string
				seq := ""
				ns, nb := 0, 0
				for i := 0; i <= n; i++ {
					if i == upos {
						decls = append(decls, fnU)
						seq += "U"
					}
					if i == n {
						break
					}
					if mask&(1<<i) == 0 {
						ns++
						decls = append(decls, fmt.Sprintf("var _ = foo(%d)\n", ns))
						seq += "S"
					} else {
						nb++
						decls = append(decls, fmt.Sprintf("var _ = bar(%d)\n", nb))
						seq += "B"
					}
				}
				for _, mode := range []string{"", "cli"} {
					emit(&C17Case{PatchID: "expr-equal-decls", Changes: []*model.Change{eq}, Slots: map[string]string{"U": "doc, inside, trailing"}, Sites: seq, File: "package p\n\n" + strings.Join(decls, "\n"), Mode: mode})
				}
			}
		}
	}
	patches := c17Patches()
	var ids []string
	for id := range patches {
		ids = append(ids, id)
	}
	sort.Strings(ids)
	texts := func(slot string, n int) []string {
		switch c17SlotKind[slot] {
		case "build":
			return []string{"//go:build linux"}
		case "own":
			return []string{fmt.Sprintf("// c%d %s", n, slot), fmt.Sprintf("/* c%d %s */", n, slot), fmt.Sprintf("//go:generate tool%d %s", n, slot)}
		case "eol":
			return []string{fmt.Sprintf("// c%d %s", n, slot), fmt.Sprintf("/* c%d %s */", n, slot)}
		case "eolpkg": // also: two comments on the package line
			return []string{fmt.Sprintf("// c%d %s", n, slot), fmt.Sprintf("/* c%d %s */", n, slot), fmt.Sprintf("/* c%d %s */ // c%db %s", n, slot, n, slot)}
		case "eol0":
			return []string{fmt.Sprintf("// c%d %s", n, slot), fmt.Sprintf("/* c%d %s */", n, slot)}
		case "eol2":
			return []string{fmt.Sprintf("// c%d %s", n, slot)}
		default:
			return []string{fmt.Sprintf("/* c%d %s */", n, slot)}
		}
	}
	max := c17Max(tier)
	var rec func(start int, slots map[string]string)
	emitFor := func(slots map[string]string) {
		for _, id := range ids {
			for _, sites := range []string{"d2", "d2+d3", "d4", "d2/funcs", "d4/funcs", "d2/sitefirst", "d2+d3/sitefirst", "d2/sitefirst/funcs", "d2/sitelast", "d2/sitelast/funcs", "d2/imp", "d2/funcs/imp", "d2/sitefirst/imp", "d2/sitelast/imp", "d2/imps2", "d2/sitefirst/imps2"} {
				if strings.HasSuffix(sites, "/imp") != (id == "expr-import" || id == "expr-+import") {
					continue
				}
				impSlot := false
				for k := range slots {
					if strings.HasPrefix(k, "imp") {
						impSlot = true
					}
				}
				if strings.HasSuffix(sites, "/imps2") && id != "expr" && id != "expr+import" && id != "funcdecl-replace" && id != "pkg-rename+funcdecl-replace" {
					continue
				}
				if impSlot && !strings.HasSuffix(sites, "/imps2") {
					continue // these slots exist on the files with two import declarations only
				}
				cp := map[string]string{}
				for k, v := range slots {
					cp[k] = v
				}
				emit(&C17Case{PatchID: id, Changes: patches[id], Slots: cp, Sites: sites, File: c17Render(cp, sites)})
				if tier == "thorough" || len(cp) <= 1 || sites == "d2" || sites == "d2+d3" || sites == "d4/funcs" || sites == "d2/sitefirst" || sites == "d2/sitelast" || sites == "d2/imp" || sites == "d2/imps2" {
					// quick: two-comment placements go through the command line on four of the eight site configurations
					emit(&C17Case{PatchID: id, Changes: patches[id], Slots: cp, Sites: sites, File: c17Render(cp, sites), Mode: "cli"})
				}
			}
		}
	}
	rec = func(start int, slots map[string]string) {
		emitFor(slots)
		if len(slots) == max {
			return
		}
		for i := start; i < len(c17SlotOrder); i++ {
			s := c17SlotOrder[i]
			for _, t := range texts(s, len(slots)+1) {
				if len(slots) >= 1 && strings.HasPrefix(t, "//go:generate") && tier != "thorough" {
					continue // quick: directives only as the single comment
				}
				slots[s] = t
				rec(i+1, slots)
				delete(slots, s)
			}
		}
	}
	rec(0, map[string]string{})
}

type declComments struct {
	canon    string
	comments []string
}

// c17Analyse splits the comments of a file into header comments, comments
// per non-import declaration, and all comments.
func c17Analyse(src []byte) (header []string, decls []declComments, all []string, err error) {
	fset := token.NewFileSet()
	f, err := parser.ParseFile(fset, "a.go", src, parser.ParseComments|parser.SkipObjectResolution)
	if err != nil {
		return nil, nil, nil, err
	}
	line := func(p token.Pos) int { return fset.Position(p).Line }
	pkgLine := line(f.Package)
	contLine := -1 // a comment on the package line may continue on the lines directly below it
	for _, cg := range f.Comments {
		for _, c := range cg.List {
			all = append(all, c.Text)
			switch {
			case c.Pos() < f.Package || line(c.Pos()) == pkgLine:
				header = append(header, c.Text)
				if line(c.Pos()) == pkgLine {
					contLine = line(c.End()) + 1
				}
			case contLine >= 0 && line(c.Pos()) == contLine && (len(f.Decls) == 0 || c.End() < f.Decls[0].Pos() && line(f.Decls[0].Pos()) > line(c.End())+1):
				header = append(header, c.Text)
				contLine = line(c.End()) + 1
			}
		}
	}
	for _, d := range f.Decls {
		if gd, ok := d.(*ast.GenDecl); ok && gd.Tok == token.IMPORT {
			continue
		}
		dc := declComments{canon: canon.Node(d, canon.Options{})}
		var doc *ast.CommentGroup
		switch d := d.(type) {
		case *ast.GenDecl:
			doc = d.Doc
		case *ast.FuncDecl:
			doc = d.Doc
		}
		endLine := line(d.End())
		// trailing: the comment group that starts on the declaration's last line, continued by
		// groups on the directly following lines (a multi-line trailing comment)
		trailing := map[*ast.CommentGroup]bool{}
		lastLine := -1
		for _, cg := range f.Comments {
			if cg.Pos() >= d.End() && line(cg.Pos()) == endLine {
				trailing[cg] = true
				lastLine = line(cg.End())
			} else if lastLine >= 0 && cg.Pos() >= d.End() && line(cg.Pos()) == lastLine+1 {
				trailing[cg] = true
				lastLine = line(cg.End())
			}
		}
		for _, cg := range f.Comments {
			for _, c := range cg.List {
				switch {
				case cg == doc:
					dc.comments = append(dc.comments, "doc:"+c.Text)
				case c.Pos() >= d.Pos() && c.End() <= d.End():
					dc.comments = append(dc.comments, "in:"+c.Text)
				case trailing[cg]:
					dc.comments = append(dc.comments, "trail:"+c.Text)
				}
			}
		}
		decls = append(decls, dc)
	}
	return header, decls, all, nil
}

// c17ImportComments: per import path, the comments attached to it: the documentation and the line comment of its
// spec, and the documentation of the declaration that holds it (gofmt-style tools merge import declarations; a
// comment that then documents the merged declaration is still attached to the import).
func c17ImportComments(src []byte) map[string][]string {
	fset := token.NewFileSet()
	f, err := parser.ParseFile(fset, "a.go", src, parser.ParseComments|parser.SkipObjectResolution)
	if err != nil {
		return nil
	}
	out := map[string][]string{}
	for _, d := range f.Decls {
		gd, ok := d.(*ast.GenDecl)
		if !ok || gd.Tok != token.IMPORT {
			continue
		}
		// the comment that trails the declaration on its last line
		var trail *ast.CommentGroup
		for _, cg := range f.Comments {
			if cg.Pos() >= gd.End() && fset.Position(cg.Pos()).Line == fset.Position(gd.End()).Line {
				trail = cg
			}
		}
		for _, sp := range gd.Specs {
			is := sp.(*ast.ImportSpec)
			var l []string
			groups := []*ast.CommentGroup{gd.Doc, is.Doc, is.Comment}
			if trail != is.Comment {
				groups = append(groups, trail)
			}
			for _, cg := range groups {
				if cg == nil {
					continue
				}
				for _, c := range cg.List {
					l = append(l, c.Text)
				}
			}
			out[is.Path.Value] = l
		}
	}
	return out
}

func c17Run(env *core.Env, ci any) core.Outcome {
	c := ci.(*C17Case)
	ptext := model.RenderAll(c.Changes)
	pf, err := patch.Parse("c.patch", []byte(ptext))
	if err != nil {
		return core.Outcome{Skip: "patch rejected: " + firstWords(stripPos(err.Error()), 7)}
	}
	out, err := pf.Apply("a.go", []byte(c.File))
	if c.Mode == "cli" {
		var rej string
		out, err, rej = cliRunner(env)(ptext, &MCase{File: c.File})
		if rej != "" {
			return core.Outcome{Skip: rej}
		}
	}
	o := core.Outcome{Class: "applied/" + c.PatchID + c.Mode}
	bad := func(key, format string, a ...any) core.Outcome {
		o.Violation = fmt.Sprintf("[%s, sites=%s, slots=%v, %s] ", c.PatchID, c.Sites, c.Slots, c.Mode) + fmt.Sprintf(format, a...) + "\n--- patch:\n" + ptext + "--- file:\n" + c.File + "--- output:\n" + string(out)
		o.FindingKey = "C17:" + key + "/" + c.PatchID
		if strings.HasPrefix(key, "!") { // semantic key: independent of the patch kind
			o.FindingKey = "C17:" + key[1:]
		}
		return o
	}
	if err != nil {
		return bad("apply-error", "Apply failed: %v", err)
	}
	if string(out) == c.File {
		o.Class = "not-applied"
		return o
	}
	o.Nontrivial = len(c.Slots) > 0
	inH, inD, inAll, err := c17Analyse([]byte(c.File))
	if err != nil {
		panic("harness: generated file does not parse: " + err.Error() + "\n" + c.File)
	}
	outH, outD, outAll, err := c17Analyse(out)
	if err != nil {
		return bad("unparseable-output", "output does not parse: %v", err)
	}
	// no comment invented or duplicated
	cnt := map[string]int{}
	for _, t := range inAll {
		cnt[t]++
	}
	for _, t := range outAll {
		cnt[t]--
		if cnt[t] < 0 {
			return bad("comment-invented-or-duplicated", "comment %q occurs more often in the output than in the input", t)
		}
	}
	// the header comments are the first comments of the file: the output must begin with them, in order (a comment that
	// continued the package line may end up directly above the first declaration when that declaration is rewritten)
	prefixOK := len(outAll) >= len(inH) && strings.Join(outAll[:len(inH)], "\n") == strings.Join(inH, "\n")
	if strings.Join(inH, "\n") != strings.Join(outH, "\n") && !prefixOK {
		strip := func(l []string) string {
			var o []string
			for _, t := range l {
				if !strings.HasPrefix(t, "//go:build") {
					o = append(o, t)
				}
			}
			return strings.Join(o, "\n")
		}
		// (the same with a comment that continued the package line now standing above the rewritten first declaration)
		hoistedPrefix := len(outAll) >= len(inH) && strip(outAll[:len(inH)]) == strip(inH) && len(outAll) > 0 && strings.HasPrefix(outAll[0], "//go:build") && !strings.HasPrefix(inH[0], "//go:build")
		if hoistedPrefix || len(inH) == len(outH) && strip(inH) == strip(outH) && len(outH) > 0 && strings.HasPrefix(outH[0], "//go:build") {
			return bad("!gobuild-line-hoisted-above-header-comment", "the //go:build line was moved above a header comment that preceded it (go/printer normalisation), so the header comments are no longer in the same order:\n in  %q\n out %q", inH, outH)
		}
		return bad("header-comments-changed", "comments up to the package clause changed:\n in  %q\n out %q", inH, outH)
	}
	// imports the patch does not mention keep the comments attached to them
	mentioned := map[string]bool{}
	for _, ch := range c.Changes {
		for _, im := range ch.Imports {
			mentioned[`"`+im.Path+`"`] = true
		}
	}
	inI, outI := c17ImportComments([]byte(c.File)), c17ImportComments(out)
	var paths []string
	for p := range inI {
		paths = append(paths, p)
	}
	sort.Strings(paths)
	for _, p := range paths {
		if _, still := outI[p]; !still || mentioned[p] {
			continue
		}
		if !isSubsequence(inI[p], outI[p]) {
			// which comment went missing, and is it the documentation of a later import declaration that a
			// merge of the import declarations left behind as a free-standing comment?
			missing := ""
			for _, t := range inI[p] {
				if !contains(outI[p], t) {
					missing = t
				}
			}
			if missing != "" && contains(outAll, missing) && c17LaterImportDeclComment([]byte(c.File), missing) && c17ImportDecls(out) < c17ImportDecls([]byte(c.File)) {
				return bad("!later-import-decl-comment-detached-by-merge", "the file has several import declarations, which are merged into one when the file is rewritten (golang.org/x/tools/imports does so even with FormatOnly); the comment %q attached to a later import declaration is left behind as a free-standing comment:\n in  %q\n out %q", missing, inI[p], outI[p])
			}
			return bad("!import-comments-detached", "the import %s is not mentioned by the patch but the comments attached to it changed:\n in  %q\n out %q", p, inI[p], outI[p])
		}
	}
	if len(inD) != len(outD) {
		return bad("decl-count", "number of declarations changed: %d -> %d", len(inD), len(outD))
	}
	// comments of the input that belong to no declaration and not to the header
	inFree := map[string]bool{}
	for _, t := range inAll {
		inFree[t] = true
	}
	for _, t := range inH {
		delete(inFree, t)
	}
	for _, d := range inD {
		for _, cm := range d.comments {
			delete(inFree, cm[strings.Index(cm, ":")+1:])
		}
	}
	for _, l := range inI {
		for _, t := range l {
			delete(inFree, t)
		}
	}
	untouched := 0
	for i := range inD {
		if inD[i].canon != outD[i].canon {
			continue // rewritten declaration: only the multiset rule applies
		}
		untouched++
		// a comment of the input's header (a continuation of the package line) that now stands directly above this
		// declaration, because the import declaration between them was removed, is still the header's comment
		// the same holds for a free-standing comment (attached to no declaration in the input) above it, when the
		// blank line that separated them is gone
		outC := outD[i].comments
		for len(outC) > 0 && strings.HasPrefix(outC[0], "doc:") && !contains(inD[i].comments, outC[0]) &&
			(contains(inH, strings.TrimPrefix(outC[0], "doc:")) && prefixOK || inFree[strings.TrimPrefix(outC[0], "doc:")]) {
			outC = outC[1:]
		}
		if strings.Join(inD[i].comments, "\n") != strings.Join(outC, "\n") {
			slot := "?"
			for _, cm := range inD[i].comments {
				if !contains(outD[i].comments, cm) {
					slot = cm[:strings.Index(cm, ":")]
				}
			}
			hasPlusImport := false
			for _, ch := range c.Changes {
				for _, im := range ch.Imports {
					if im.Tag == "+" {
						hasPlusImport = true
					}
				}
			}
			if i == 0 && slot == "doc" && hasPlusImport && !strings.Contains(c.File, "import ") && len(outD[i].comments) == len(inD[i].comments)-1 {
				return bad("!first-decl-doc-captured-by-first-added-import", "the change adds the first import declaration of the file; the doc comment of the first declaration ends up on the import line and is no longer attached to its declaration:\n in  %q\n out %q", inD[i].comments, outD[i].comments)
			}
			if c.PatchID == "expr-equal-decls" && strings.Contains(inD[i].canon, "keep") && len(outD[i].comments) < len(inD[i].comments) {
				// the function among declarations that the rewrite makes equal to one another: astdiff's greedy
				// alignment pairs a rewritten declaration with an equal one further on and takes the function
				// in between for deleted code, whose comments cleanupFilePos then removes
				return bad("!comments-of-function-between-declarations-made-equal-deleted", "declaration %d (the function) is syntactically unchanged but lost comments:\n in  %q\n out %q", i+1, inD[i].comments, outD[i].comments)
			}
			return bad(fmt.Sprintf("untouched-decl-comments-changed/d%d/%s", i+1, slot), "declaration %d is syntactically unchanged but its comments differ:\n in  %q\n out %q", i+1, inD[i].comments, outD[i].comments)
		}
	}
	o.Transitions = 1 + untouched
	return o
}

// c17ImportDecls counts the import declarations of a file.
func c17ImportDecls(src []byte) int {
	f, err := parser.ParseFile(token.NewFileSet(), "a.go", src, parser.ImportsOnly)
	if err != nil {
		return -1
	}
	n := 0
	for _, d := range f.Decls {
		if gd, ok := d.(*ast.GenDecl); ok && gd.Tok == token.IMPORT {
			n++
		}
	}
	return n
}

// c17LaterImportDeclComment: text is a comment attached to (documenting, inside or trailing) an import declaration other than the first.
func c17LaterImportDeclComment(src []byte, text string) bool {
	fset := token.NewFileSet()
	f, err := parser.ParseFile(fset, "a.go", src, parser.ImportsOnly|parser.ParseComments)
	if err != nil {
		return false
	}
	n := 0
	for _, d := range f.Decls {
		gd, ok := d.(*ast.GenDecl)
		if !ok || gd.Tok != token.IMPORT {
			continue
		}
		n++
		if n == 1 {
			continue
		}
		from := gd.Pos()
		if gd.Doc != nil {
			from = gd.Doc.Pos()
		}
		for _, cg := range f.Comments {
			for _, c := range cg.List {
				if c.Text == text && c.Pos() >= from && fset.Position(c.Pos()).Line <= fset.Position(gd.End()).Line {
					return true
				}
			}
		}
	}
	return false
}

// isSubsequence reports whether every element of a occurs in b, in the same order.
func isSubsequence(a, b []string) bool {
	i := 0
	for _, x := range b {
		if i < len(a) && a[i] == x {
			i++
		}
	}
	return i == len(a)
}
