package props

import (
	"fmt"
	"os"
	"strings"
	"syscall"

	"github.com/uber-go/gopatch/patch"

	"verifmc/canon"
	"verifmc/core"
	"verifmc/drive"
	"verifmc/model"
)

// C09Case: a history of changes, a file and the way the changes are packaged.
type C09Case struct {
	Seq       []string `json:"seq"` // ids of the changes, in order
	FileID    string   `json:"file_id"`
	File      string   `json:"file"`
	Packaging string   `json:"packaging"` // one | multi-p | P-list | stdin | mixed | api
	// Big (family "big"): a patch file of this many changes, old<k>(x) -> new<k>(x) each; the file uses the first,
	// a middle and the last of them. One run with all of them equals the three single-change runs that apply.
	Big int `json:"big,omitempty"`
}

// c09RunBig: the size of a patch file does not matter (no change is lost beyond some buffer or limit).
func c09RunBig(env *core.Env, c *C09Case) core.Outcome {
	o := core.Outcome{Nontrivial: true, Class: fmt.Sprintf("big=%d", c.Big), Transitions: 1}
	var b strings.Builder
	for k := 0; k < c.Big; k++ {
		fmt.Fprintf(&b, "@@\nvar x expression\n@@\n-old%05d(x)\n+new%05d(x)\n\n", k, k)
	}
	ptext := b.String()
	mid := c.Big / 2
	file := fmt.Sprintf("package p\n\nfunc f() {\n\told%05d(1)\n\told%05d(2)\n\told%05d(3)\n}\n", 0, mid, c.Big-1)
	want := fmt.Sprintf("package p\n\nfunc f() {\n\tnew%05d(1)\n\tnew%05d(2)\n\tnew%05d(3)\n}\n", 0, mid, c.Big-1)
	got, errText := "", ""
	switch c.Packaging {
	case "api":
		pf, err := patch.Parse("big.patch", []byte(ptext))
		if err != nil {
			errText = err.Error()
			break
		}
		out, err := pf.Apply("a.go", []byte(file))
		if err != nil {
			errText = err.Error()
		}
		got = string(out)
	default:
		sb := newSandbox(env, "c09big", map[string]string{"t/a.go": file, "big.patch": ptext})
		defer sb.remove()
		args, stdin := []string{"-p", sb.path("big.patch"), "a.go"}, ""
		if c.Packaging == "stdin" {
			args, stdin = []string{"a.go"}, ptext
		}
		r := sb.run(true, "t", args, stdin)
		if r.Panic != "" || r.Exit != 0 {
			errText = fmt.Sprintf("exit %d %s %s", r.Exit, r.Panic, firstN(r.Stderr, 300))
		}
		got = sb.read("t/a.go")
	}
	if errText != "" || got != want {
		o.FindingKey = "C09:big-patch-differs/" + c.Packaging
		o.Violation = fmt.Sprintf("[patch file of %d changes, %d bytes, packaging %s] the run does not equal the runs of the three changes that apply (error %q):\n got  %q\n want %q", c.Big, len(ptext), c.Packaging, errText, got, want)
	}
	return o
}

func init() {
	core.Register(&core.Property{
		ID:    "C09",
		Level: "model_checking",
		Rule: "universe = all sequences of length 2 and 3 (thorough: also length 4 over the 8 most interacting changes) over a catalogue of 27 interacting changes (a change that generates nested calls and one that matches both levels, a change that renames an import and one that names it under the new name, a change that adds an import with its first use and one guarded by that import, an unwrapping change and one with a repeated metavariable meeting original and introduced code, a change that copies captured code to a later place and one that matches both levels of the result, an import-guarded change on a file where a parameter shadows the package name, a deletion of a statement that contains a comment group, a change that uses the metavariable names of the others as ordinary names, B matches only A's output, duplication, consumption of what a later change needs, no-ops, a change failing with an unbound '+' metavariable, a change whose result alone is unparseable, statement/declaration/import changes; repetitions allowed) x 15 files x packaging {one patch file, repeated -p (same path for a repeated change), -P list, -P list with blank lines and without final newline, stdin, -p mixed with -P, library API}. " +
			"Family big: one patch file of 1400 / 22000 (thorough 88000) changes (70 KiB / 1.1 MiB / 4.2 MiB) through -p, stdin and the library. Differential oracle without model: the combined run's result is canonically identical to the chain of single-change runs, each on the bytes the previous one produced; a failing step makes the combined run exit non-zero and leave the file byte-identical. non-trivial = at least two changes of the history apply in the chain",
		Assumptions: []string{"histories in which a chain step fails only because its intermediate text does not parse, while the combined run reaches a parseable result, are enumerated but excluded from the verdict"},
		Bounds: func(tier string) map[string]any {
			return map[string]any{"changes": len(c09Order), "max_len": c09MaxLen(tier)}
		},
		NewCase: func() any { return &C09Case{} },
		Gen:     c09Gen,
		Setup:   cliSetup,
		Run:     c09Run,
	})
}

func c09MaxLen(tier string) int {
	if tier == "thorough" {
		return 4
	}
	return 3
}

var c09Order = []string{"A", "B", "C", "D", "E", "F", "G", "H", "I", "J", "K", "L", "M", "N", "O", "Q", "R", "S", "T", "U", "V", "W", "X", "Y", "Z", "P1", "P2"}

func c09Changes() map[string]*model.Change {
	xm := []model.MetaVar{{Name: "x", Kind: "expression"}}
	xy := []model.MetaVar{{Name: "x", Kind: "expression"}, {Name: "y", Kind: "expression"}}
	xv := []model.MetaVar{{Name: "x", Kind: "expression"}, {Name: "v", Kind: "identifier"}}
	return map[string]*model.Change{
		"A": {Name: "A", Kind: "expr", Meta: xm, Lines: model.L("-a1(x)", "+b1(x)")},
		"B": {Name: "B", Kind: "expr", Meta: xm, Lines: model.L("-b1(x)", "+c1(x, x)")},
		"C": {Name: "C", Kind: "expr", Meta: xy, Lines: model.L("-c1(x, y)", "+d1(y)")},
		"D": {Name: "D", Kind: "expr", Meta: xm, Lines: model.L("-a1(x)", "+keep(a1(x))")},
		"E": {Name: "E", Kind: "expr", Meta: xm, Lines: model.L("-c1(x, x)", "+gone()")},
		"F": {Name: "F", Kind: "expr", Meta: xm, Lines: model.L("-zzz(x)", "+yyy(x)")},
		"G": {Name: "G", Kind: "expr", Meta: xm, Lines: model.L("-a1(x)", "+pair(a1(x), b1(x))")},
		"H": {Name: "H", Kind: "expr", Meta: xy, Lines: model.L("-b1(x)", "+b2(x, y)")},
		"I": {Name: "I", Kind: "expr", Meta: xm, Lines: model.L("-cond(x)", "+x == T{}")},
		"J": {Name: "J", Kind: "expr", Lines: model.L("-T{}", "+zero")},
		"K": {Name: "K", Kind: "stmts", Meta: xv, Lines: model.L("-v := a1(x)", " DOTS_1", "-use(v)", "+use(b1(x))")},
		"L": {Name: "L", Kind: "decl", Lines: model.L("-func f1() {", "+func f2() {", " DOTS_1", " }")},
		"M": {Name: "M", Kind: "decl", Lines: model.L("-func f2() {", "+func f3() {", " DOTS_1", "+\tadded()", " }")},
		// x and v are ordinary names here; they are metavariables of other changes
		"O": {Name: "O", Kind: "expr", Lines: model.L("-x.Close(v)", "+x.Shutdown(v)")},
		// deletes a statement that contains a whole comment group
		"Q": {Name: "Q", Kind: "stmts", Meta: xm, Lines: model.L(" setup0()", "-debug(x)")},
		// R copies a captured call from early in a block into a call it creates later; S matches both levels of it
		"R": {Name: "R", Kind: "stmts", Meta: xm, Lines: model.L(" first(x)", " DOTS_1", "-last()", "+wrap(x)")},
		"S": {Name: "S", Kind: "expr", Lines: model.L("-wrap(DOTS_1)", "+unwrap(DOTS_1)")},
		// T is guarded by an import whose package name a parameter of the file shadows
		"T": {Name: "T", Kind: "expr", Imports: []model.Import{{Tag: " ", Path: "pk/foo"}}, Lines: model.L("-foo.Bar()", "+foo.Baz()")},
		// U adds an import together with its first use; V is guarded by that import and keeps using it
		"U": {Name: "U", Kind: "expr", Imports: []model.Import{{Tag: "+", Path: "time"}}, Lines: model.L("-now()", "+time.Now()")},
		"V": {Name: "V", Kind: "expr", Meta: xm, Imports: []model.Import{{Tag: " ", Path: "time"}}, Lines: model.L("-fmt.Println(x)", "+fmt.Print(x)")},
		// W unwraps; X has a repeated metavariable whose two occurrences then meet original and introduced code
		"W": {Name: "W", Kind: "expr", Meta: xm, Lines: model.L("-wrap(x)", "+x")},
		"X": {Name: "X", Kind: "expr", Meta: xm, Lines: model.L("-pair(x, x)", "+single(x)")},
		// Y renames the name of an import; Z is a later change that names the import under its new name
		"Y": {Name: "Y", Kind: "expr", Meta: xm, Imports: []model.Import{{Tag: "-", Name: "foo", Path: "pk/bar"}, {Tag: "+", Name: "baz", Path: "pk/bar"}}, Lines: model.L("-foo.F(x)", "+baz.F(x)")},
		"Z": {Name: "Z", Kind: "expr", Meta: xm, Imports: []model.Import{{Tag: "-", Name: "baz", Path: "pk/bar"}, {Tag: "+", Path: "pk/qux"}}, Lines: model.L("-baz.F(x)", "+qux.F(x)")},
		// P1 generates nested calls (all generated tokens carry the position of the replaced site); P2 matches both levels
		"P1": {Name: "P1", Kind: "expr", Meta: xm, Lines: model.L("-old(x)", "+nest(nest(x))")},
		"P2": {Name: "P2", Kind: "expr", Lines: model.L("-nest(DOTS_1)", "+done(DOTS_1)")},
		// L1, L2: an import replaced by one whose path is long enough to reach past the comment that follows
		// it, and replaced again; L3 renames the function below, which carries a directive (or a doc comment)
		"L1": {Name: "L1", Kind: "expr", Meta: xm, Imports: []model.Import{{Tag: "-", Path: "aaa"}, {Tag: "+", Name: "bbb", Path: "example.com/some/quite/long/path/bbb"}}, Lines: model.L("-aaa.F(x)", "+bbb.F(x)")},
		"L2": {Name: "L2", Kind: "expr", Meta: xm, Imports: []model.Import{{Tag: "-", Name: "bbb", Path: "example.com/some/quite/long/path/bbb"}, {Tag: "+", Path: "ddd"}}, Lines: model.L("-bbb.F(x)", "+ddd.F(x)")},
		"L3": {Name: "L3", Kind: "expr", Lines: model.L("-fdir", "+gdir")},
		"N":  {Name: "N", Kind: "expr", Meta: xm, Imports: []model.Import{{Tag: "+", Path: "new/q"}}, Lines: model.L("-b1(x)", "+q.B1(x)")},
	}
}

var c09Files = [][2]string{
	{"a1", "package p\n\nfunc f1() {\n\ta1(1)\n}\n"},
	{"a1-twice", "package p\n\nfunc g() {\n\ta1(1)\n\ta1(2 + 3)\n}\n"},
	{"b1", "package p\n\nimport \"fmt\"\n\nfunc g() {\n\tfmt.Println(b1(1))\n}\n"},
	{"c1+a1", "package p\n\nfunc g() {\n\tc1(1, 1)\n\ta1(3)\n}\n"},
	{"cond", "package p\n\nfunc g() {\n\tif cond(v) {\n\t\ta1(1)\n\t}\n\t_ = cond(w)\n}\n"},
	{"stmts", "package p\n\nfunc f1() {\n\tv := a1(1)\n\tmid()\n\tuse(v)\n}\n"},
	{"none", "package p\n\nfunc g() {\n\tother(1)\n}\n"},
	{"closer", "package p\n\nfunc g() {\n\ta1(1)\n\tx.Close(v)\n\tother.Close(w)\n}\n"},
	{"commented", "package p\n\nfunc f1() {\n\tsetup0()\n\tdebug(func() {\n\t\t// inner comment\n\t\twork()\n\t})\n\tv := a1(1) // first\n\t// own line\n\tmid() /* inner */\n\tuse(v) // last\n\ta1(2) // keep\n\tb1(3)\n}\n\n// doc of g\nfunc g() {\n\tc1(4, 4) // pair\n}\n"},
	{"wraps", "package p\n\nimport \"pk/foo\"\n\nfunc f1(foo T) {\n\tfirst(wrap(1))\n\tmid()\n\tlast()\n\tuse(a1(foo.Bar()))\n\t_ = foo.Bar()\n}\n"},
	{"renamed", "package p\n\nimport foo \"pk/bar\" // why\n\nfunc f1() {\n\tfoo.F(1)\n\ta1(2)\n}\n"},
	{"nests", "package p\n\nfunc f1() {\n\told(1)\n\tnest(nest(2))\n\ta1(old(3))\n}\n"},
	{"timed", "package p\n\nimport \"fmt\"\n\nfunc g() {\n\tfmt.Println(now())\n\ta1(1)\n}\n"},
	{"pairs", "package p\n\nfunc f1(v int) {\n\tpair(v, wrap(v))\n\tpair(wrap(v.w), v.w)\n\ta1(v)\n}\n"},
	{"nested", "package p\n\nvar _ = a1(a1(1))\n\nfunc f2() {\n\tb1(2)\n}\n"},
}

func c09Gen(tier string, emit func(any)) {
	// big: patch files beyond the usual buffer sizes (64 KiB, 1 MiB; thorough 4 MiB)
	sizes := []int{1400, 22000}
	if tier == "thorough" {
		sizes = append(sizes, 88000)
	}
	for _, n := range sizes {
		for _, p := range []string{"one", "stdin", "api"} {
			emit(&C09Case{Big: n, Packaging: p})
		}
	}
	// comment groups emptied by one change and still referenced by the next
	for _, s := range seqs([]string{"L1", "L2", "L3", "A"}, 3) {
		if len(s) < 2 {
			continue
		}
		for _, f := range [][2]string{
			{"directive", "package p\n\nimport \"aaa\"\n\n//go:noinline\nfunc fdir() {\n\taaa.F(a1(1))\n}\n"},
			{"doc", "package p\n\nimport \"aaa\"\n\n// fdir does things.\nfunc fdir() {\n\taaa.F(1)\n}\n\n// V is a variable.\nvar V = aaa.F(2)\n"},
			{"field-doc", "package p\n\nimport \"aaa\"\n\ntype T struct {\n\t// fdir is a field.\n\tfdir int // trailing\n}\n\nvar V = aaa.F(2)\n"},
		} {
			for _, p := range []string{"one", "multi-p", "api"} {
				emit(&C09Case{Seq: s, FileID: f[0], File: f[1], Packaging: p})
			}
		}
	}
	// -P before -p, and two -P options: pairs and triples over the first changes, on two files
	for _, s := range seqs([]string{"A", "B", "C", "D"}, 3) {
		if len(s) < 2 {
			continue
		}
		for _, f := range c09Files[:2] {
			for _, p := range []string{"P-then-p", "two-P"} {
				emit(&C09Case{Seq: s, FileID: f[0], File: f[1], Packaging: p})
			}
		}
	}
	packagings := []string{"one", "multi-p", "P-list", "stdin", "mixed", "api", "P-list-odd", "one-fifo", "P-fifo"}
	for _, s := range seqs(c09Order, c09MaxLen(tier)) {
		if len(s) < 2 {
			continue
		}
		if len(s) == 4 {
			// length 4: only over the 8 most interacting changes
			ok := true
			for _, id := range s {
				if !strings.Contains("ABCDEGHN", id) {
					ok = false
				}
			}
			if !ok {
				continue
			}
		}
		// quick: triples with the later additions only on the files written for them
		newer := false
		written := map[string]bool{}
		for _, id := range s {
			switch {
			case strings.Contains("QRST", id):
				newer, written["commented"], written["wraps"] = true, true, true
			case strings.Contains("UV", id):
				newer, written["timed"] = true, true
			case id == "P1" || id == "P2":
				newer, written["nests"] = true, true
			case strings.Contains("YZ", id):
				newer, written["renamed"] = true, true
			case strings.Contains("WX", id):
				newer, written["pairs"], written["wraps"] = true, true, true
			}
		}
		for _, f := range c09Files {
			if len(s) >= 3 && newer && !written[f[0]] && tier != "thorough" {
				continue
			}
			for _, p := range packagings {
				if (len(s) >= 3 && (p == "stdin" || p == "mixed" || p == "P-list-odd") || p == "one-fifo" || p == "P-fifo") && f[0] != "a1" && f[0] != "nested" {
					continue // length 3: all packagings on two files, the main packagings on all files
				}
				emit(&C09Case{Seq: s, FileID: f[0], File: f[1], Packaging: p})
			}
		}
	}
}

type c09Step struct {
	out    string
	status string // ok | nomatch | rewrite-error | unparseable | other-error
	stderr string
}

// c09Single runs one change alone through the CLI (cached per worker).
func c09Single(env *core.Env, id string, input string) c09Step {
	cache, _ := env.Private["c09cache"].(map[string]c09Step)
	if cache == nil {
		cache = map[string]c09Step{}
		env.Private["c09cache"] = cache
	}
	key := id + "\x00" + input
	if st, ok := cache[key]; ok {
		return st
	}
	ch := c09Changes()[id]
	sb := newSandbox(env, "c09s", map[string]string{"t/a.go": input, "p.patch": ch.Render()})
	defer sb.remove()
	r := sb.run(false, "t", []string{"-p", sb.path("p.patch"), "a.go"}, "")
	st := c09Step{out: sb.read("t/a.go"), stderr: r.Stderr}
	switch {
	case r.Panic != "":
		st.status = "panic: " + r.Panic
	case r.Exit == 0 && st.out == input:
		st.status = "nomatch"
	case r.Exit == 0:
		st.status = "ok"
	case strings.Contains(r.Stderr, "could not update"):
		st.status = "rewrite-error"
	case strings.Contains(r.Stderr, "failed to rewrite") || strings.Contains(r.Stderr, "reformat") || strings.Contains(r.Stderr, "could not parse"):
		st.status = "unparseable"
	default:
		st.status = "other-error"
	}
	cache[key] = st
	return st
}

func c09Run(env *core.Env, ci any) core.Outcome {
	c := ci.(*C09Case)
	if c.Big > 0 {
		return c09RunBig(env, c)
	}
	changes := c09Changes()
	o := core.Outcome{}
	bad := func(key, format string, a ...any) core.Outcome {
		o.Violation = fmt.Sprintf("[history %v, file %s, packaging %s] ", c.Seq, c.FileID, c.Packaging) + fmt.Sprintf(format, a...) + "\n--- file:\n" + c.File
		o.FindingKey = "C09:" + key + "/" + c.Packaging
		return o
	}
	// the chain of single-change runs
	cur := c.File
	applied := 0
	chainFail := ""
	failAt := -1
	for i, id := range c.Seq {
		st := c09Single(env, id, cur)
		if strings.HasPrefix(st.status, "panic") {
			return bad("panic", "single-change run of %s crashed: %s", id, st.status)
		}
		if st.status == "ok" {
			applied++
			cur = st.out
			continue
		}
		if st.status == "nomatch" {
			continue
		}
		chainFail, failAt = st.status, i
		break
	}
	o.Transitions = len(c.Seq) + 1
	o.Nontrivial = applied >= 2 || (chainFail != "" && applied >= 1)
	o.Class = fmt.Sprintf("chain-applied=%d fail=%s", applied, chainFail)

	// the combined run
	var combinedOut string
	combinedFailed := false
	combinedErr := ""
	if c.Packaging == "api" {
		var cs []*model.Change
		for _, id := range c.Seq {
			cs = append(cs, changes[id])
		}
		pf, err := patch.Parse("all.patch", []byte(model.RenderAll(cs)))
		if err != nil {
			panic("harness: combined patch rejected: " + err.Error())
		}
		out, err := pf.Apply("a.go", []byte(c.File))
		if err != nil {
			combinedFailed, combinedErr = true, err.Error()
			combinedOut = c.File
		} else {
			combinedOut = string(out)
		}
	} else {
		tree := map[string]string{"t/a.go": c.File}
		pathOf := func(id string) string { return "patches/" + id + ".patch" }
		for _, id := range c.Seq {
			tree[pathOf(id)] = changes[id].Render()
		}
		var cs []*model.Change
		for _, id := range c.Seq {
			cs = append(cs, changes[id])
		}
		all := model.RenderAll(cs)
		tree["all.patch"] = all
		sb := newSandbox(env, "c09", tree)
		defer sb.remove()
		var args []string
		stdin := ""
		list := func(ids []string) string {
			var b strings.Builder
			for _, id := range ids {
				b.WriteString(sb.path(pathOf(id)) + "\n")
			}
			return b.String()
		}
		switch c.Packaging {
		case "one":
			args = []string{"-p", sb.path("all.patch")}
		case "multi-p":
			for _, id := range c.Seq {
				args = append(args, "-p", sb.path(pathOf(id)))
			}
		case "P-list":
			if err := writeFile(sb.path("list.txt"), list(c.Seq)); err != nil {
				panic(err)
			}
			args = []string{"-P", sb.path("list.txt")}
		case "P-list-odd":
			// the same list in a legal but unusual spelling: blank lines, no newline after the last entry
			rel := list(c.Seq)
			if err := writeFile(sb.path("list.txt"), "\n\n"+strings.TrimSuffix(strings.ReplaceAll(rel, "\n", "\n\n"), "\n\n")); err != nil {
				panic(err)
			}
			args = []string{"-P", sb.path("list.txt")}
		case "one-fifo", "P-fifo": // the patch file / the list of patch files is a named pipe
			name, data := "all.patch", all
			args = []string{"-p", sb.path("all.patch")}
			if c.Packaging == "P-fifo" {
				name, data = "list.txt", list(c.Seq)
				args = []string{"-P", sb.path("list.txt")}
			}
			os.Remove(sb.path(name))
			if err := syscall.Mkfifo(sb.path(name), 0o644); err != nil {
				panic("harness: " + err.Error())
			}
			defer drive.FeedFifo(sb.path(name), data)()
			sb.noShadow = true
		case "stdin":
			stdin = all
		case "P-then-p": // the list first, then a -p patch: the given order is list, patch
			if err := writeFile(sb.path("list.txt"), list(c.Seq[:len(c.Seq)-1])); err != nil {
				panic(err)
			}
			args = []string{"-P", sb.path("list.txt"), "-p", sb.path(pathOf(c.Seq[len(c.Seq)-1]))}
		case "two-P": // two lists
			if err := writeFile(sb.path("list.txt"), list(c.Seq[:1])); err != nil {
				panic(err)
			}
			if err := writeFile(sb.path("list2.txt"), list(c.Seq[1:])); err != nil {
				panic(err)
			}
			args = []string{"-P", sb.path("list.txt"), "-P", sb.path("list2.txt")}
		case "mixed":
			if err := writeFile(sb.path("list.txt"), "\n"+list(c.Seq[1:])+"\n"); err != nil {
				panic(err)
			}
			args = []string{"-p", sb.path(pathOf(c.Seq[0])), "-P", sb.path("list.txt")}
		}
		args = append(args, "a.go")
		r := sb.run(false, "t", args, stdin)
		if r.Panic != "" {
			return bad("panic", "combined run crashed: %s", r.Panic)
		}
		combinedOut = sb.read("t/a.go")
		if r.Exit != 0 {
			combinedFailed, combinedErr = true, r.Stderr
		}
	}

	switch chainFail {
	case "":
		if combinedFailed {
			return bad("combined-fails", "every step of the chain succeeds but the combined run fails: %s", firstWords(combinedErr, 20))
		}
		a, err1 := canon.Source([]byte(combinedOut), canon.Options{SortImports: true})
		b, err2 := canon.Source([]byte(cur), canon.Options{SortImports: true})
		if err1 != nil || err2 != nil {
			return bad("unparseable", "unparseable result: combined %v chain %v", err1, err2)
		}
		if a != b && (c.Packaging == "P-then-p" || c.Packaging == "two-P") {
			o := bad("order", "combined run differs from the chain of single-change runs\ncombined:\n%s\nchain:\n%s", combinedOut, cur)
			o.FindingKey = "C09:" + map[string]string{"P-then-p": "patches-file-given-before-p-runs-after-it", "two-P": "second-patches-file-replaces-the-first"}[c.Packaging]
			return o
		}
		if a != b {
			return bad("result-differs", "combined run differs from the chain of single-change runs\ncombined:\n%s\nchain:\n%s", combinedOut, cur)
		}
		if applied == 0 && combinedOut != c.File {
			return bad("noop-history-changed-file", "no change of the history applies but the file bytes changed:\n%s", combinedOut)
		}
	case "rewrite-error":
		if !combinedFailed {
			return bad("failure-not-reported", "step %d (%s) of the chain fails with a rewrite error, but the combined run reports success; result:\n%s", failAt, c.Seq[failAt], combinedOut)
		}
		if combinedOut != c.File {
			return bad("file-touched-on-failure", "step %d (%s) fails; the combined run reports it but the file was modified:\n%s", failAt, c.Seq[failAt], combinedOut)
		}
	case "unparseable":
		if failAt == len(c.Seq)-1 || allNoMatchAfter(env, c, failAt) {
			// unparseable final result
			if !combinedFailed {
				return bad("unparseable-result-not-reported", "the final result of the history does not parse, but the combined run reports success:\n%s", combinedOut)
			}
			if combinedOut != c.File {
				return bad("file-touched-on-failure", "the final result does not parse; the combined run reports it but the file was modified:\n%s", combinedOut)
			}
		} else {
			o.Class = "excluded: intermediate text unparseable"
			o.Nontrivial = false
		}
	default:
		o.Class = "excluded: chain fails with " + chainFail
		o.Nontrivial = false
	}
	return o
}

// allNoMatchAfter: the steps after a failing one cannot repair the text (they
// are not exercised by the chain); we only treat the failure as final when it
// is the last step.
func allNoMatchAfter(env *core.Env, c *C09Case, failAt int) bool { return false }
