package props

import (
	"fmt"
	"go/scanner"
	"go/token"
	"os"
	"path/filepath"
	"sort"
	"strings"

	"github.com/uber-go/gopatch/patch"

	"verifmc/core"
	"verifmc/gen"
)

// C08Case: an arbitrary patch text and target files.
type C08Case struct {
	Family string   `json:"family"`
	Patch  string   `json:"patch"`
	Files  []string `json:"files"`
	CLI    string   `json:"cli,omitempty"`   // "", "p", "stdin"
	Flags  []string `json:"flags,omitempty"` // further command-line flags (CLI cases)
	Args   []string `json:"args,omitempty"`  // target arguments instead of "." ("$T" = absolute path of the target directory)
}

func init() {
	core.Register(&core.Property{
		ID:    "C08",
		Level: "model_checking",
		Rule: "universe = (a) every sequence of <=5 (thorough <=6) lines over 16 line shapes (headers good/bad, '#', blank, metavariable declarations good/bad, -/+/context lines, elision lines) with and without final newline; (b) every sequence of <=4 (thorough <=5) tokens over a 33-token alphabet as the '-' side against a fixed '+' side and vice versa; (c) every byte prefix of every patch in /repo/testdata and /repo/examples; (d) the radius-1 token neighbourhood of each of those patches (each token deleted, duplicated, swapped with its neighbour, replaced by each alphabet token); (f) the radius-1 byte neighbourhood of those patches (each byte deleted; each of 14 (thorough 31) hostile bytes incl. NUL, 0xff, CR inserted before / written over every position); (g) every real patch and 7 stress patches against every construct of the catalogue in context and against deeply nested / long sources (nesting 10..300, thorough ..1000); (h) 14 unusual file headers (empty comment lines, /**/, BOM, //line, markers) x 3 bodies x 5 flag sets through the CLI; (i) a target tree whose symbolic links form cycles; every sequence of <=3 lines of a -P list over {valid, missing, empty, blanks, tab, '#', trailing blanks} with and without final newline; (j) every sequence of <=5 (thorough <=6) body lines over 7 lines with elisions on the -, + and context side; (k) //line directives (line 1, 7, 300000000) at every line of a target with multi-line sites; (l) 2..9 elisions (literal, one repeated metavariable, distinct metavariables) over lists of 12 and 40 equal elements, as arguments and as statements; (m) every sequence of <=5 lines over 6 lines that start with or carry many elisions; (o) a function of 6000 and of 20001 statements (workers and replays run under a 6 GB address-space limit); (n) every sequence of <=3 target arguments over 7 spellings of two files and their directory; (e) well-formed but ill-typed patches: every metavariable kind in every slot kind on either side with captures of every filler kind. Each runs patch.Parse and, if accepted, Apply on target files that contain every construct; a slice also through the CLI (-p and stdin). " +
			"Oracle: terminates (watchdog), no panic or fatal error, and either success or an error value / non-zero exit with a diagnostic. non-trivial = the patch is accepted by patch.Parse (the engine runs)",
		Assumptions: []string{"a case that does not return within the watchdog limit of 10 s (normal cost < 1 ms) is re-run in isolation before it is reported as a hang"},
		Bounds: func(tier string) map[string]any {
			l, t := c08Bounds(tier)
			return map[string]any{"line_seq_len": l, "token_seq_len": t}
		},
		NewCase:     func() any { return &C08Case{} },
		Gen:         c08Gen,
		Setup:       cliSetup,
		Run:         c08Run,
		HangSeconds: 20,
		HangKey: func(ci any) string {
			// the search for a placement of many sections is still exponential in the number of sections that
			// each bind a metavariable of their own (known finding; see DESIGN 8.2)
			if c := ci.(*C08Case); strings.HasPrefix(c.Family, "l-many-elisions/") && strings.Contains(c.Patch, "x5") {
				return "/many-elisions-each-binding-its-own-metavariable"
			}
			return ""
		},
	})
}

func c08Bounds(tier string) (lines, toks int) {
	if tier == "thorough" {
		return 6, 5
	}
	return 5, 4
}

var c08Targets = []string{
	"package p\n\nimport \"fmt\"\n\nfunc f(a int, b ...string) (int, error) {\n\tx := foo(a)\n\tbar(x, b...)\n\tfor i := range b {\n\t\tfmt.Println(i, foo(1), a.x)\n\t}\n\tif x > 0 {\n\t\treturn x, nil\n\t}\n\treturn 0, nil\n}\n\ntype T struct {\n\ta int\n\tx string\n}\n\nvar v = T{a: 1}\n\nfunc (t T) m() {}\n",
	"package p\n\nfunc ctx() {\n\tctx\n\tfoo(x)\n\ta\n\tfoo()\n\tfunc() {}()\n\tswitch a {\n\tcase 1:\n\t\tfoo(2)\n\t}\n}\n",
}

// testdataPatches extracts patches and their input files from /repo/testdata (txtar) and /repo/examples.
func testdataPatches() (patches []string, inputs [][]string) {
	files, _ := filepath.Glob(core.RepoDir() + "/testdata/*")
	sort.Strings(files)
	for _, f := range files {
		st, err := os.Stat(f)
		if err != nil || st.IsDir() || strings.HasSuffix(f, ".md") {
			continue
		}
		b, err := os.ReadFile(f)
		if err != nil {
			continue
		}
		var ps, ins []string
		name := ""
		var cur []string
		flush := func() {
			body := strings.Join(cur, "\n")
			if len(cur) > 0 {
				body += "\n"
			}
			switch {
			case strings.HasSuffix(name, ".patch"):
				ps = append(ps, body)
			case strings.HasSuffix(name, ".in.go"):
				ins = append(ins, body)
			}
			cur = nil
		}
		for _, ln := range strings.Split(strings.TrimSuffix(string(b), "\n"), "\n") {
			if strings.HasPrefix(ln, "-- ") && strings.HasSuffix(ln, " --") {
				flush()
				name = strings.TrimSuffix(strings.TrimPrefix(ln, "-- "), " --")
				continue
			}
			cur = append(cur, ln)
		}
		flush()
		if len(ins) > 2 {
			ins = ins[:2]
		}
		for _, p := range ps {
			patches = append(patches, p)
			inputs = append(inputs, ins)
		}
	}
	ex, _ := filepath.Glob(core.RepoDir() + "/examples/*.patch")
	sort.Strings(ex)
	for _, f := range ex {
		if b, err := os.ReadFile(f); err == nil {
			patches = append(patches, string(b))
			inputs = append(inputs, c08Targets[:1])
		}
	}
	return
}

var c08TokenAlphabet = []string{"func", "(", ")", "{", "}", "[", "]", "...", ",", ".", ";", "=", ":=", "*", "a", "x", `"s"`, "1", "package", "import", "type", "var", "const", "struct", "interface", "for", "range", "if", "case", "return", "\n", ":", "<-"}

func tokenize(src string) (toks []string, offs []int) {
	fset := token.NewFileSet()
	f := fset.AddFile("t", -1, len(src))
	var s scanner.Scanner
	s.Init(f, []byte(src), func(token.Position, string) {}, scanner.ScanComments)
	for {
		pos, tok, lit := s.Scan()
		if tok == token.EOF {
			break
		}
		if tok == token.SEMICOLON && lit == "\n" {
			continue
		}
		off := f.Offset(pos)
		l := len(lit)
		if l == 0 {
			l = len(tok.String())
		}
		if off+l > len(src) {
			l = len(src) - off
		}
		toks = append(toks, src[off:off+l])
		offs = append(offs, off)
	}
	return
}

func c08Gen(tier string, emit0 func(any)) {
	only := os.Getenv("VERIF_C08_FAMILY") // debugging aid: restrict to the families with this prefix
	emit := func(c any) {
		if only == "" || strings.HasPrefix(c.(*C08Case).Family, only) {
			emit0(c)
		}
	}
	ll, tl := c08Bounds(tier)
	// (a) line structure
	shapes := []string{"@@", "@ n @", "@ 9 @", "@ @", "@x", "# c", "", "var x expression", "var x,", "var x", "x expression", "-foo(x)", "+bar(x)", " ctx", " ...", "-func f(...) {"}
	seqsEach(shapes, ll, func(s []string) {
		txt := strings.Join(s, "\n")
		emit(&C08Case{Family: "a-lines", Patch: txt + "\n", Files: c08Targets[1:]})
		if len(s) > 0 {
			emit(&C08Case{Family: "a-lines-nonl", Patch: txt, Files: c08Targets[1:]})
		}
		if len(s) <= 3 {
			emit(&C08Case{Family: "a-lines-cli", Patch: txt + "\n", Files: c08Targets[1:], CLI: "p"})
			emit(&C08Case{Family: "a-lines-cli", Patch: txt + "\n", Files: c08Targets[1:], CLI: "stdin"})
		}
	})
	// (j) body lines carrying elisions in every order (elisions of the two sides are paired by line and position)
	dotLines := []string{"-foo(...)", "+bar(...)", " ctx(...)", "+baz(..., x, ...)", "-foo(x)", "+bar(x)", " ..."}
	dotTarget := []string{"package p\n\nfunc f() {\n\tfoo(1, 2)\n\tctx(3)\n\tfoo(4)\n\tmid()\n\tctx()\n\tfoo()\n}\n"}
	seqsEach(dotLines, ll, func(s []string) {
		if len(s) == 0 {
			return
		}
		emit(&C08Case{Family: "j-elision-lines", Patch: "@@\nvar x expression\n@@\n" + strings.Join(s, "\n") + "\n", Files: dotTarget})
	})
	// (k) //line directives in the target: positions reported by go/token are then not lines of the file
	lineSrc := []string{"package a", "", "func f() {", "\tx := foo(1 +", "\t\t2)", "\ty := foo(", "\t\tg(", "\t\t\t3),", "\t)", "\t_, _ = x, y", "}"}
	for _, n := range []string{"1", "7", "300000000"} {
		for at := 1; at < len(lineSrc); at++ {
			if n == "300000000" && at != 4 && at != 7 {
				continue // the large jump (minutes of work per line counted one by one) at two places only
			}
			var b strings.Builder
			for i, ln := range lineSrc {
				if i == at {
					b.WriteString("//line x.go:" + n + "\n")
				}
				b.WriteString(ln + "\n")
			}
			for _, p := range []string{"@@\nvar v expression\n@@\n-foo(v)\n+v\n", "@@\nvar v expression\n@@\n-foo(v)\n+bar(\n+  v,\n+  v)\n", "@@\nvar v identifier\n@@\n-v := foo(...)\n+v := 0\n"} {
				emit(&C08Case{Family: "k-line-directive", Patch: p, Files: []string{b.String()}})
			}
		}
	}
	// (l) many elisions over a long list of equal elements: the number of ways to place the explicit elements
	// grows exponentially, the answer must not take that long
	for k := 2; k <= 9; k++ {
		for _, el := range []string{"1", "x", "x%d"} {
			var args, meta []string
			for i := 0; i < k; i++ {
				e := el
				if strings.Contains(el, "%d") {
					e = fmt.Sprintf(el, i)
					meta = append(meta, e)
				}
				args = append(args, "..., "+e)
			}
			if el == "x" {
				meta = []string{"x"}
			}
			if el == "x%d" && k > 4 && tier != "thorough" {
				continue
			}
			decl := ""
			if len(meta) > 0 {
				decl = "var " + strings.Join(meta, ", ") + " expression\n"
			}
			for _, n := range []int{12, 40} {
				ones := strings.TrimSuffix(strings.Repeat("1, ", n), ", ")
				stmts := strings.Repeat("\tone(1)\n", n)
				emit(&C08Case{Family: "l-many-elisions/args", Patch: "@@\n" + decl + "@@\n-foo(" + strings.Join(args, ", ") + ", ..., 2)\n+bar()\n", Files: []string{"package a\n\nfunc f() {\n\tfoo(" + ones + ")\n}\n"}})
				var lines []string
				for i := 0; i < k; i++ {
					e := "1"
					if el != "1" {
						e = strings.TrimPrefix(args[i], "..., ")
					}
					lines = append(lines, " one("+e+")", " ...")
				}
				emit(&C08Case{Family: "l-many-elisions/stmts", Patch: "@@\n" + decl + "@@\n" + strings.Join(lines, "\n") + "\n-two()\n+bar()\n", Files: []string{"package a\n\nfunc f() {\n" + stmts + "}\n"}})
			}
		}
	}
	// (m) patches whose first line is an elision, followed by lines that carry many elisions
	manyDots := []string{"-...", "-g0(func(..., b func(..., func(...))) (..., error) { ... }, ...)", "-g1(...)", "-g3(func(a func(...), ...) {}, ...)", "+bar(...)", " h(..., func(...) { ... })"}
	seqsEach(manyDots, ll, func(s []string) {
		if len(s) < 2 {
			return
		}
		emit(&C08Case{Family: "m-leading-elision", Patch: "@@\n@@\n" + strings.Join(s, "\n") + "\n", Files: dotTarget})
	})
	// (n) the same files named several times, in every spelling and order
	twoFiles := []string{"package p\n\nfunc f() {\n\tfoo(1)\n}\n", "package p\n\nfunc g() {\n\tfoo(2)\n}\n"}
	seqsEach([]string{".", "f0.go", "f1.go", "./f1.go", "$T", "$T/f1.go", "./..."}, 3, func(a []string) {
		if len(a) == 0 {
			return
		}
		emit(&C08Case{Family: "n-repeated-arguments", Patch: "@@\nvar x expression\n@@\n-foo(x)\n+bar(x)\n", Files: twoFiles, CLI: "p", Args: append([]string{}, a...)})
	})
	// (o) one function with very many statements: cost and memory stay proportional to the input (one case each, 70 KB and 229 KB)
	stmtsN := []int{6000, 20001}
	for _, n := range stmtsN {
		var b strings.Builder
		b.WriteString("package a\n\nfunc f() {\n")
		for i := 0; i < n; i++ {
			fmt.Fprintf(&b, "\tx%d()\n", i)
		}
		b.WriteString("\tfoo(1)\n}\n")
		emit(&C08Case{Family: "o-long-function", Patch: "@@\nvar x expression\n@@\n-foo(x)\n+bar(x)\n", Files: []string{b.String()}})
	}
	// (b) token strings on one side
	seqsEach(c08TokenAlphabet, tl, func(s []string) {
		if len(s) == 0 {
			return
		}
		side := strings.Join(s, " ")
		var minus, plus []string
		for _, ln := range strings.Split(side, "\n") {
			minus = append(minus, "-"+ln)
			plus = append(plus, "+"+ln)
		}
		emit(&C08Case{Family: "b-tokens-minus", Patch: "@@\nvar x expression\n@@\n" + strings.Join(minus, "\n") + "\n+bar(x)\n", Files: c08Targets[:1]})
		emit(&C08Case{Family: "b-tokens-plus", Patch: "@@\nvar x expression\n@@\n-foo(x)\n" + strings.Join(plus, "\n") + "\n", Files: c08Targets[:1]})
	})
	// (c) prefixes and (d) token neighbourhood of real patches
	patches, inputs := testdataPatches()
	if len(patches) < 50 {
		panic(fmt.Sprintf("harness: only %d patches found under /repo/testdata", len(patches)))
	}
	for i, p := range patches {
		files := inputs[i]
		if len(files) == 0 {
			files = c08Targets[:1]
		}
		for n := 0; n <= len(p); n++ {
			emit(&C08Case{Family: "c-prefix", Patch: p[:n], Files: files})
		}
		toks, offs := tokenize(p)
		splice := func(from, to int, repl string) string { return p[:from] + repl + p[to:] }
		for k := range toks {
			end := offs[k] + len(toks[k])
			emit(&C08Case{Family: "d-token-delete", Patch: splice(offs[k], end, ""), Files: files})
			emit(&C08Case{Family: "d-token-dup", Patch: splice(end, end, " "+toks[k]), Files: files})
			if k+1 < len(toks) {
				e2 := offs[k+1] + len(toks[k+1])
				emit(&C08Case{Family: "d-token-swap", Patch: p[:offs[k]] + toks[k+1] + p[end:offs[k+1]] + toks[k] + p[e2:], Files: files})
			}
			if tier == "thorough" || len(p) < 160 || k%3 == 0 {
				for _, a := range c08TokenAlphabet {
					emit(&C08Case{Family: "d-token-replace", Patch: splice(offs[k], end, a), Files: files})
				}
			}
		}
	}
	// (f) byte neighbourhood of real patches: every byte deleted, and every byte of a hostile alphabet
	// inserted before / written over every position
	hostile := []byte{0x00, 0xff, '\r', '\n', '@', '#', '.', '-', '+', ' ', '{', '(', '"', '`'}
	if tier == "thorough" {
		hostile = append(hostile, '\t', '}', ')', '\'', ',', ';', ':', '=', '*', '[', ']', '/', '\\', '0', 'x', 0xc3, 0xef)
	}
	for i, p := range patches {
		files := inputs[i]
		if len(files) == 0 {
			files = c08Targets[:1]
		}
		if tier != "thorough" && len(p) > 400 {
			continue // quick: the byte neighbourhood of the shorter patches
		}
		for n := 0; n < len(p); n++ {
			emit(&C08Case{Family: "f-byte-delete", Patch: p[:n] + p[n+1:], Files: files})
			for _, b := range hostile {
				emit(&C08Case{Family: "f-byte-insert", Patch: p[:n] + string([]byte{b}) + p[n:], Files: files})
				if p[n] != b {
					emit(&C08Case{Family: "f-byte-replace", Patch: p[:n] + string([]byte{b}) + p[n+1:], Files: files})
				}
			}
		}
	}
	// (g) targets: every real patch against every construct of the catalogue in context, and against
	// deeply nested / very long (but small) sources
	var hostileTargets []string
	for _, k := range gen.Constructs() {
		switch k.Kind {
		case "expr":
			hostileTargets = append(hostileTargets, "package p\n\nfunc _() {\n\tfoo("+k.Src+")\n\t_ = "+k.Src+"\n}\n")
		case "stmts":
			hostileTargets = append(hostileTargets, "package p\n\nfunc _() {\n\t"+strings.ReplaceAll(k.Src, "\n", "\n\t")+"\n}\n")
		case "decl":
			hostileTargets = append(hostileTargets, "package p\n\n"+k.Src+"\n")
		}
	}
	depths := []int{10, 30, 100, 300}
	if tier == "thorough" {
		depths = append(depths, 1000)
	}
	for _, d := range depths {
		hostileTargets = append(hostileTargets,
			"package p\n\nvar v = "+strings.Repeat("(", d)+"foo(1)"+strings.Repeat(")", d)+"\n",
			"package p\n\nvar v = "+strings.Repeat("foo(", d)+"1"+strings.Repeat(")", d)+"\n",
			"package p\n\nfunc f() {\n"+strings.Repeat("{\n", d)+"foo(1)\n"+strings.Repeat("}\n", d)+"}\n",
			"package p\n\nfunc f() {\n"+strings.Repeat("if c {\n", d)+"x := foo(1)\n_ = x\n"+strings.Repeat("}\n", d)+"}\n",
			"package p\n\nvar v = foo(1"+strings.Repeat(", a", d)+")\n",
			"package p\n\nfunc f() {\n"+strings.Repeat("\tfoo(1)\n\tbar(2)\n", d)+"}\n",
			"package p\n\nvar v = 1"+strings.Repeat(" + foo(1)", d)+"\n",
			"package p\n\nvar v = a"+strings.Repeat(".b", d)+"\n",
			"package p\n\nvar v = "+strings.Repeat("T{", d)+"foo(1)"+strings.Repeat("}", d)+"\n",
			"package p\n\nvar v = "+strings.Repeat("a[", d)+"foo(1)"+strings.Repeat("]", d)+"\n",
			"package p\n\nvar v = "+strings.Repeat("-", d)+"foo(1)\n",
			"package p\n\nvar v "+strings.Repeat("[]", d)+"foo\n",
			"package p\n\nvar v "+strings.Repeat("map[foo]", d)+"foo\n",
			"package p\n\nvar v "+strings.Repeat("chan ", d)+"foo\n",
			"package p\n\nvar v "+strings.Repeat("func() ", d)+"foo\n",
			"package p\n\nvar v "+strings.Repeat("struct{ a ", d)+"foo"+strings.Repeat(" }", d)+"\n",
			"package p\n\nfunc f() {\n"+strings.Repeat("go func() {\n", d)+"foo(1)\n"+strings.Repeat("}()\n", d)+"}\n",
			"package p\n\nfunc f() {\n"+strings.Repeat("for {\nswitch {\ncase c:\n", d)+"foo(1)\n"+strings.Repeat("}\n}\n", d)+"}\n",
			"package p\n\nfunc f() {\n"+strings.Repeat("select {\ncase <-c:\n", d)+"foo(1)\n"+strings.Repeat("}\n", d)+"}\n",
			"package p\n\nfunc f() {\n"+strings.Repeat("if foo(1) {\n} else ", d)+"{\n}\n}\n")
	}
	// wide and deep at once: a complete binary tree of calls
	for _, d := range []int{4, 8, 11} {
		var tree func(n int) string
		tree = func(n int) string {
			if n == 0 {
				return "foo(1)"
			}
			return "foo(" + tree(n-1) + ", " + tree(n-1) + ")"
		}
		hostileTargets = append(hostileTargets, "package p\n\nvar v = "+tree(d)+"\n")
	}
	for _, t := range hostileTargets {
		if parses(t) != nil {
			continue
		}
		for _, p := range patches {
			emit(&C08Case{Family: "g-target", Patch: p, Files: []string{t}})
		}
		for _, p := range []string{"@@\nvar x expression\n@@\n-foo(x)\n+bar(x, x)\n", "@@\nvar x expression\n@@\n-foo(..., x, ..., x, ...)\n+bar(x)\n", "@@\nvar x identifier\n@@\n x := foo(1)\n ...\n-_ = x\n+use(x)\n",
			"@@\nvar x, y expression\n@@\n-x + y\n+y + x\n", "@@\n@@\n {\n   ...\n-  foo(1)\n+  bar(1)\n   ...\n }\n", "@@\nvar x expression\n@@\n-(x)\n+x\n", "@@\nvar x identifier\n@@\n-a.x\n+a.x()\n"} {
			emit(&C08Case{Family: "g-target-stress", Patch: p, Files: []string{t}})
		}
	}
	// (h) targets with unusual headers under every flag combination (code that runs outside the per-file recovery)
	headers := []string{"", "// Package p.\n", "// Package p does things.\n//\n// Second paragraph.\n", "/**/\n", "//\n", "/*\n*/\n", "//go:build linux\n\n", "// Code generated by x. DO NOT EDIT.\n\n", "// @generated\n",
		"//\n// @generated\n//\n", "/* @generated\n\n*/\n", "// \t \n", "\xef\xbb\xbf// bom\n", "//line x.go:10\n"}
	flagSets := [][]string{{"--skip-generated"}, {"--skip-generated", "--print-only"}, {"--skip-generated", "--diff", "-v"}, {"--skip-import-processing", "--print-only"}, {"-v", "--diff"}}
	for _, h := range headers {
		for _, body := range []string{"package p\n\nfunc f() {\n\tfoo(1)\n}\n", "package p\n\nfunc f() {\n\tother(1)\n}\n", "package p // trailing\n\n// doc\n//\nvar v = foo(2)\n"} {
			t := h + body
			if parses(t) != nil {
				continue
			}
			for _, fs := range flagSets {
				emit(&C08Case{Family: "h-header-flags", Patch: "@@\nvar x expression\n@@\n-foo(x)\n+bar(x)\n", Files: []string{t}, CLI: "p", Flags: fs})
			}
		}
	}
	// (i) symbolic links that form cycles in the target tree, and every sequence of <=3 lines of a -P list over
	// {valid path, missing path, empty, blanks, tab, '#' line}
	emit(&C08Case{Family: "i-link-cycles", Patch: "@@\nvar x expression\n@@\n-foo(x)\n+bar(x)\n", Files: []string{"package p\n\nfunc f() {\n\tfoo(1)\n}\n"}, CLI: "p"})
	seqsEach([]string{"$VALID", "missing.patch", "", "   ", "\t", "# comment", "$VALID  "}, 3, func(s []string) {
		if len(s) == 0 {
			return
		}
		emit(&C08Case{Family: "i-list-lines", Patch: strings.Join(s, "\n"), Files: []string{"package p\n\nfunc f() {\n\tfoo(1)\n}\n"}, CLI: "P"})
		emit(&C08Case{Family: "i-list-lines", Patch: strings.Join(s, "\n") + "\n", Files: []string{"package p\n\nfunc f() {\n\tfoo(1)\n}\n"}, CLI: "P"})
	})
	// (e) ill-typed but well-formed
	slots := []struct{ id, minus, plus, file string }{
		{"selector-sel", "-foo(M)", "+bar.M", "foo(§)"},
		{"selector-x", "-foo(M)", "+M.bar", "foo(§)"},
		{"func-name", "-foo(M)", "+func M() {}", "foo(§)"},
		{"label", "-foo(M)", "+M: for {}", "foo(§)"},
		{"field-name", "-foo(M)", "+struct{ M int }{}", "foo(§)"},
		{"kv-key", "-foo(M)", "+T{M: 1}", "foo(§)"},
		{"type-pos", "-foo(M)", "+[]M{}", "foo(§)"},
		{"call-fun", "-foo(M)", "+M(1)", "foo(§)"},
		{"define-lhs", "-foo(M)", "+M := 1", "foo(§)"},
		{"range-key", "-foo(M)", "+for M := range v {}", "foo(§)"},
		{"import-name", "-foo(M)", "+import M \"x/y\"\n+bar()", "foo(§)"},
		{"package-name", "-foo(M)", "+package M\n+bar()", "foo(§)"},
		{"param-name", "-foo(M)", "+func(M int) {}", "foo(§)"},
		{"stmt-pos", "-foo(M)", "+if c { M }", "foo(§)"},
		{"goto", "-foo(M)", "+goto M", "foo(§)"},
		{"minus-sel", "-v.M", "+bar(M)", "v.fld; v.m(); §"},
		{"minus-funcname", "-func M() {}", "+func M2() {}", "package"},
		{"dots-in-plus-only", "-foo(M)", "+bar(M, ...)", "foo(§)"},
		{"dots-stmt-plus-first", "+v = bar(...)", "-v = foo(...)", "v = foo(§)"},
		{"dots-kinds-mixed", " for ... {\n-foo(M)\n+bar(...)\n }", "", "for i := range v { foo(§) }"},
		{"dots-field-vs-expr", "-func f(...) { foo(M) }", "+func f() { bar(...) }", "package-func"},
	}
	fillers := append([]string{}, c03Fill...)
	fillers = append(fillers, "a.b.c", "f(g(h()))", "func() { for {} }", "<-<-ch", "[]T", "chan int")
	for _, s := range slots {
		for _, kind := range []string{"expression", "identifier"} {
			meta := "var M " + kind + "\n"
			ptxt := "@@\n" + meta + "@@\n" + s.minus + "\n"
			if s.plus != "" {
				ptxt += s.plus + "\n"
			}
			for _, fl := range fillers {
				var file string
				switch s.file {
				case "package":
					file = "package p\n\nfunc " + strings.Fields(fl)[0] + "() {}\n\nfunc ok() {}\n"
					if !simpleIdent(strings.Fields(fl)[0]) {
						continue
					}
				case "package-func":
					file = "package p\n\nfunc f(a int, b string) { foo(" + fl + ") }\n"
				default:
					file = "package p\n\nfunc _() {\n\t" + strings.ReplaceAll(s.file, "§", fl) + "\n}\n"
				}
				if parses(file) != nil {
					continue
				}
				emit(&C08Case{Family: "e-ill-typed/" + s.id, Patch: ptxt, Files: []string{file}})
			}
		}
	}
	// every construct of the catalogue as '+' side of an expression / statement pattern and vice versa
	for _, k := range gen.Constructs() {
		var plus, minus []string
		for _, ln := range strings.Split(k.Src, "\n") {
			plus = append(plus, "+"+ln)
			minus = append(minus, "-"+ln)
		}
		for _, t := range c08Targets {
			emit(&C08Case{Family: "e-cross-kind", Patch: "@@\nvar x expression\n@@\n-foo(x)\n" + strings.Join(plus, "\n") + "\n", Files: []string{t}})
			emit(&C08Case{Family: "e-cross-kind", Patch: "@@\nvar x expression\n@@\n-x\n" + strings.Join(plus, "\n") + "\n", Files: []string{t}})
			emit(&C08Case{Family: "e-cross-kind", Patch: "@@\nvar a identifier\n@@\n" + strings.Join(minus, "\n") + "\n+foo(a)\n", Files: []string{t}})
		}
	}
}

func simpleIdent(s string) bool {
	if s == "" {
		return false
	}
	for i, r := range s {
		if !(r == '_' || r >= 'a' && r <= 'z' || r >= 'A' && r <= 'Z' || i > 0 && r >= '0' && r <= '9') {
			return false
		}
	}
	return token.Lookup(s) == token.IDENT
}

func c08Run(env *core.Env, ci any) core.Outcome {
	c := ci.(*C08Case)
	fam := strings.SplitN(c.Family, "/", 2)[0]
	o := core.Outcome{Class: fam + "/rejected"}
	bad := func(key, format string, a ...any) core.Outcome {
		o.Violation = fmt.Sprintf("[%s] ", c.Family) + fmt.Sprintf(format, a...) + fmt.Sprintf("\n--- patch (%d bytes):\n%s\n--- files: %q", len(c.Patch), c.Patch, c.Files)
		o.FindingKey = "C08:" + key
		return o
	}
	if c.CLI != "" {
		judge := func(real bool) core.Outcome {
			tree := map[string]string{"v.patch": c.Patch}
			for i, f := range c.Files {
				tree[fmt.Sprintf("t/f%d.go", i)] = f
			}
			if c.CLI == "P" {
				tree["v.patch"] = "@@\nvar x expression\n@@\n-foo(x)\n+bar(x)\n"
			}
			sb := newSandbox(env, "c08", tree)
			defer sb.remove()
			if c.Family == "i-link-cycles" {
				for _, l := range [][2]string{{"../b", "t/a/peer"}, {"../a", "t/b/peer"}, {"..", "t/a/up"}, {".", "t/self"}, {"../../t", "t/b/root"}} {
					os.MkdirAll(filepath.Dir(sb.path(l[1])), 0o755)
					if err := os.Symlink(l[0], sb.path(l[1])); err != nil {
						panic("harness: " + err.Error())
					}
				}
				os.WriteFile(sb.path("t/a/f.go"), []byte(c.Files[0]), 0o644)
				os.WriteFile(sb.path("t/b/g.go"), []byte(c.Files[0]), 0o644)
			}
			args := []string{"-p", sb.path("v.patch"), "."}
			if len(c.Args) > 0 {
				args = args[:2]
				for _, a := range c.Args {
					args = append(args, strings.ReplaceAll(a, "$T", sb.path("t")))
				}
			}
			if c.CLI == "P" {
				os.WriteFile(sb.path("list.txt"), []byte(strings.ReplaceAll(c.Patch, "$VALID", sb.path("v.patch"))), 0o644)
				args = []string{"-P", sb.path("list.txt"), "."}
			}
			stdin := ""
			if c.CLI == "stdin" {
				args, stdin = []string{"."}, c.Patch
			}
			args = append(append([]string{}, c.Flags...), args...)
			r := sb.run(real, "t", args, stdin)
			if r.Panic != "" {
				return bad("cli-crash", "gopatch crashed: %s", firstWords(r.Panic, 40))
			}
			if r.Exit != 0 && strings.TrimSpace(r.Stderr) == "" {
				return bad("cli-silent-failure", "non-zero exit %d without a diagnostic", r.Exit)
			}
			o.Class = fmt.Sprintf("%s/exit=%d", fam, r.Exit)
			o.Nontrivial = r.Exit == 0
			return o
		}
		return believeIfReal(judge)
	}
	pf, err := patch.Parse("c.patch", []byte(c.Patch))
	if err != nil {
		if err.Error() == "" {
			return bad("empty-error", "patch.Parse returned an error without a message")
		}
		return o
	}
	if pf == nil {
		return bad("nil-without-error", "patch.Parse returned nil, nil")
	}
	o.Nontrivial = true
	o.Class = fam + "/accepted"
	for _, f := range c.Files {
		out, err := pf.Apply("a.go", []byte(f))
		if err == nil && out == nil {
			return bad("nil-without-error", "Apply returned nil, nil")
		}
		if err != nil {
			o.Class = fam + "/apply-error"
		}
	}
	return o
}
