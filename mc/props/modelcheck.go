package props

import (
	"bytes"
	"errors"
	"fmt"
	"sort"
	"strings"

	"github.com/uber-go/gopatch/patch"

	"verifmc/canon"
	"verifmc/core"
	"verifmc/model"
)

// MCase is a model trace: one structured change applied to one file.
type MCase struct {
	Change *model.Change `json:"change"`
	File   string        `json:"file"`
	Tag    string        `json:"tag,omitempty"` // generator's label (family, dimension values)
	// Decoy, if set, is applied first with the same parsed patch (result
	// ignored): state kept by a parsed patch between Apply calls would leak
	// into the judged call.
	Decoy string `json:"decoy,omitempty"`
	// NoFinalNL: the rendered patch text is given to gopatch without its final newline.
	NoFinalNL bool `json:"no_final_newline,omitempty"`
	// Then, if set, is a second change of the same patch file: it must treat the code the first change
	// generated like any other code (judged with the sequence model).
	Then *model.Change `json:"then,omitempty"`
	// NoInstance: the generator built the file so that it contains no instance of the pattern under any reading of
	// the pattern language (used where the reference model does not define the pattern form); the file must come
	// back syntactically unchanged, or the patch be rejected.
	NoInstance bool `json:"no_instance,omitempty"`
	// Alts: the same patch text under other readings of which '-' elision the elision of an added line repeats
	// (the statement fixes that for context lines only); the result under any reading is accepted.
	Alts []*model.Change `json:"alts,omitempty"`
}

// rejectionIsViolation: in the universes of C02..C05 every generated patch is well-formed (none is rejected on the
// pinned tree), so a patch that gopatch refuses to load is a verdict, not a non-case.
func rejectionIsViolation(o core.Outcome, patchText, file string) core.Outcome {
	if !strings.HasPrefix(o.Skip, "patch rejected") {
		return o
	}
	return core.Outcome{Nontrivial: true, Class: "rejected", FindingKey: "well-formed-patch-rejected",
		Violation: "a well-formed patch of the universe is refused: " + o.Skip + "\n--- patch:\n" + patchText + "--- file:\n" + file}
}

// judgeNoInstance: a file without instances is returned unchanged by the library and by the command line.
func judgeNoInstance(env *core.Env, c *MCase) core.Outcome {
	text := c.Change.Render()
	want, err := canon.Source([]byte(c.File), canon.Options{KeepParens: true})
	if err != nil {
		panic("generator produced an unparseable file: " + err.Error())
	}
	o := core.Outcome{Class: "no-instance", Nontrivial: true}
	for i, run := range []toolRunner{apiRunner, cliRunner(env), cliRunnerReal(env)} {
		out, aerr, rejected := run(text, c)
		if rejected != "" {
			return core.Outcome{Skip: rejected}
		}
		got := ""
		if aerr == nil {
			got, err = canon.Source(out, canon.Options{KeepParens: true})
			if err != nil {
				got = "unparseable: " + err.Error()
			}
		}
		if aerr == nil && got == want {
			if i == 0 {
				continue
			}
			return o // the command line agrees (driver, or the real binary after a driver-only disagreement)
		}
		if i == 1 {
			continue // confirm with the real binary
		}
		o.FindingKey = "non-instance-rewritten"
		o.Violation = fmt.Sprintf("the file contains no instance of the pattern but was not returned unchanged (interface %d, error %v)\n--- patch:\n%s--- file:\n%s--- output:\n%s", i, aerr, text, c.File, out)
		return o
	}
	return o
}

// mverdict is the comparison of the model's prediction with gopatch.
type mverdict struct {
	Out       core.Outcome
	Allowed   *model.Allowed
	Analysis  *model.Analysis
	ToolOut   []byte
	ToolErr   error
	PatchText string
}

// judgeModel runs one model trace against the library API.
//
// keyPrefix is prepended to finding keys; opts select the canonical form.
func judgeModel(c *MCase, opts canon.Options) mverdict {
	return judgeModelWith(c, opts, apiRunner)
}

// importDeclCases: a declaration pattern (with elisions for the parameters and the rest of the body) that also adds an
// import, on files whose import declarations are laid out in every way (none, one, grouped, one declaration per
// package, cgo's import "C" only): inserting the import must not disturb which declaration is rewritten.
func importDeclCases(tag string, guard bool) []*MCase {
	ch := &model.Change{Kind: "decl", Meta: []model.MetaVar{{Name: "n", Kind: "identifier"}},
		Imports: []model.Import{{Tag: "+", Path: "new/q"}},
		Lines:   model.L(" func n(_ DOTS_1) {", "-\tprep()", "+\tq.Prep()", " DOTS_2", " }")}
	if guard {
		ch.Imports = append([]model.Import{{Tag: " ", Path: "fmt"}}, ch.Imports...)
	}
	layouts := map[string]string{
		"none":     "",
		"single":   "import \"fmt\"\n\n",
		"grouped":  "import (\n\t\"fmt\"\n\t\"os\"\n)\n\n",
		"separate": "import \"fmt\"\n\nimport \"os\"\n\nimport named \"x/y\"\n\n",
		"cgo-only": "/*\n#include <stdio.h>\n*/\nimport \"C\"\n\n",
		"cgo+one":  "import \"C\"\n\nimport \"fmt\"\n\n",
	}
	bodies := []string{
		"func before() {}\n\nfunc load(path string, strict bool) {\n\tprep()\n\tfmt.Println(path)\n}\n\nfunc after() {\n\tother()\n}\n",
		"func load() {\n\tprep()\n}\n\nfunc second(a int) {\n\tprep()\n\tuse(a)\n}\n\nvar tail = 1\n",
	}
	var out []*MCase
	for _, l := range []string{"none", "single", "grouped", "separate", "cgo-only", "cgo+one"} {
		if guard && !strings.Contains(layouts[l], "\"fmt\"") {
			continue
		}
		for bi, b := range bodies {
			out = append(out, &MCase{Change: ch, File: "package p\n\n" + layouts[l] + b, Tag: fmt.Sprintf("%s/%s/%d", tag, l, bi)})
		}
	}
	return out
}

// judgeModelBoth judges the trace through the library API and — the command line has its own copy of the
// apply loop (main.go patchRunner) — also through the CLI in its default, in-place mode. every > 1 selects a
// deterministic 1/every slice of the traces for the CLI run. A CLI-only disagreement is only believed if
// the real binary reproduces it.
func judgeModelBoth(env *core.Env, c *MCase, opts canon.Options, every int) mverdict {
	v := judgeModel(c, opts)
	if v.Out.Violation != "" || v.Out.Skip != "" || c.Decoy != "" {
		return v
	}
	if every > 1 && int(hashString(v.PatchText+"\x00"+c.File)%uint32(every)) != 0 {
		return v
	}
	v2 := judgeModelWith(c, opts, cliRunner(env))
	if v2.Out.Violation == "" {
		v.Out.Transitions += v2.Out.Transitions
		v.Out.Validated++
		return v
	}
	for i := 0; i < 3; i++ {
		if vr := judgeModelWith(c, opts, cliRunnerReal(env)); vr.Out.Violation == "" {
			v.Out = core.Outcome{Skip: "driver-only disagreement (not reproduced by the real binary): " + v2.Out.FindingKey}
			return v
		}
	}
	v2.Out.Violation = "[command line, in place] " + v2.Out.Violation
	v2.Out.FindingKey += "/cli"
	return v2
}

func hashString(s string) uint32 {
	h := uint32(2166136261)
	for i := 0; i < len(s); i++ {
		h = (h ^ uint32(s[i])) * 16777619
	}
	return h
}

// toolRunner applies a patch text to a file through some interface of gopatch.
// rejected is non-empty when the patch itself was not accepted.
type toolRunner func(patchText string, c *MCase) (out []byte, err error, rejected string)

func apiRunner(patchText string, c *MCase) ([]byte, error, string) {
	if c.NoFinalNL {
		patchText = strings.TrimSuffix(patchText, "\n")
	}
	pf, err := patch.Parse("m.patch", []byte(patchText))
	if err != nil {
		return nil, nil, "patch rejected: " + firstWords(stripPos(err.Error()), 7)
	}
	if c.Decoy != "" {
		_, _ = pf.Apply("a.go", []byte(c.Decoy))
	}
	out, aerr := pf.Apply("a.go", []byte(c.File))
	return out, aerr, ""
}

// cliRunner runs the default (in-place) mode of the CLI.
func cliRunner(env *core.Env, flags ...string) toolRunner { return cliRunnerMode(env, false, flags...) }

// cliRunnerReal uses the real binary as a subprocess instead of the in-process driver.
func cliRunnerReal(env *core.Env, flags ...string) toolRunner {
	return cliRunnerMode(env, true, flags...)
}

func cliRunnerMode(env *core.Env, real bool, flags ...string) toolRunner {
	return func(patchText string, c *MCase) ([]byte, error, string) {
		if c.NoFinalNL {
			patchText = strings.TrimSuffix(patchText, "\n")
		}
		sb := newSandbox(env, "mcli", map[string]string{"t/a.go": c.File, "m.patch": patchText})
		defer sb.remove()
		args := append([]string{"-p", sb.path("m.patch")}, flags...)
		args = append(args, "a.go")
		r := sb.run(real, "t", args, "")
		if r.Panic != "" {
			panic("gopatch CLI crashed: " + r.Panic)
		}
		if strings.Contains(r.Stderr, "load patch") {
			return nil, nil, "patch rejected: " + firstWords(stripPos(r.Stderr), 9)
		}
		if r.Exit != 0 {
			return nil, fmt.Errorf("exit %d: %s", r.Exit, r.Stderr), ""
		}
		return []byte(sb.read("t/a.go")), nil, ""
	}
}

func judgeModelWith(c *MCase, opts canon.Options, run toolRunner) mverdict {
	v := mverdict{}
	cc, err := model.Compile(c.Change)
	if err == model.ErrMisplacedDots {
		v.Out = core.Outcome{Skip: "pattern with an elision outside a list (not defined by the properties)"}
		return v
	}
	if err != nil {
		panic(fmt.Sprintf("generator produced a change the model cannot parse: %v\n%s", err, c.Change.Render()))
	}
	v.PatchText = c.Change.Render()
	f, err := model.ParseFile([]byte(c.File))
	if err != nil {
		panic(fmt.Sprintf("generator produced an unparseable file: %v\n%s", err, c.File))
	}
	out, aerr, rejected := run(v.PatchText, c)
	if rejected != "" && c.NoFinalNL {
		// the same text with its final newline is the reference: if that is accepted, the rejection is about the missing newline only
		c2 := *c
		c2.NoFinalNL = false
		if _, _, rej2 := run(v.PatchText, &c2); rej2 == "" {
			v.Out = core.Outcome{Nontrivial: true, FindingKey: "rejected-without-final-newline",
				Violation: "the patch is accepted with a final newline but rejected without it: " + rejected + "\n--- patch (final newline removed):\n" + v.PatchText + "--- file:\n" + c.File}
			return v
		}
	}
	if rejected != "" {
		v.Out = core.Outcome{Skip: rejected}
		return v
	}
	a := model.Analyze(cc, f)
	al := a.AllowedOutputs(opts)
	v.Analysis, v.Allowed = a, al
	v.ToolOut, v.ToolErr = out, aerr

	o := core.Outcome{Nontrivial: al.Applies, Transitions: 1 + al.Mandatory + al.Optional, States: 1 + len(al.Canon)}
	bad := func(key, format string, args ...any) mverdict {
		o.Violation = fmt.Sprintf(format, args...) + "\n--- patch:\n" + v.PatchText + "--- file:\n" + c.File
		o.FindingKey = key
		v.Out = o
		return v
	}
	switch {
	case al.TooMany:
		v.Out = core.Outcome{Skip: "more optional sites than the enumeration bound"}
		return v
	case !al.Applies:
		o.Class = "no-instance"
		if aerr != nil {
			return bad("error-without-instance", "no instance of the '-' pattern in the file, but Apply fails: %v", aerr)
		}
		if !bytes.Equal(out, []byte(c.File)) {
			gc, _ := canon.Source(out, opts)
			ic, _ := canon.Source([]byte(c.File), opts)
			if gc != ic {
				return bad("rewrote-non-instance", "the model finds no instance of the '-' pattern, but gopatch rewrote the file:\n%s", out)
			}
			return bad("reformatted-without-match", "no instance, but the returned bytes differ from the input:\n%q", out)
		}
		v.Out = o
		return v
	case al.Err != nil:
		var ub *model.ErrUnbound
		if errors.As(al.Err, &ub) {
			o.Class = "plus-unbound"
			if aerr == nil {
				return bad("unbound-accepted", "the '+' side uses an unbound %s but Apply succeeded:\n%s", ub.What, out)
			}
			v.Out = o
			return v
		}
		// ill-typed instantiation inside the '+' pattern: an error, or every site left unchanged
		o.Class = "plus-ill-typed"
		if aerr != nil {
			v.Out = o
			return v
		}
		gc, perr := canon.Source(out, opts)
		ic, _ := canon.Source([]byte(c.File), opts)
		if perr != nil {
			return bad("unparseable-output", "output does not parse: %v\n%s", perr, out)
		}
		if gc != ic {
			return bad("ill-typed-plus-rewritten", "instantiating the '+' pattern is ill-typed (%v) but gopatch produced:\n%s", al.Err, out)
		}
		v.Out = o
		return v
	}
	if aerr != nil {
		o.Class = "tool-error"
		if len(al.Canon) == 0 {
			o.Class = "rewrite-unparseable(error expected)"
			v.Out = o
			return v
		}
		return bad("error-on-valid-rewrite", "the change applies and the rewritten file is valid Go, but Apply fails: %v\nexpected e.g.:\n%s", aerr, anyOf(al.Canon))
	}
	gc, perr := canon.Source(out, opts)
	if perr != nil {
		return bad("unparseable-output", "Apply succeeded but its output does not parse: %v\n%s", perr, out)
	}
	if _, ok := al.Canon[gc]; ok {
		o.Class = fmt.Sprintf("rewritten(mandatory=%d,optional=%d)", min(al.Mandatory, 3), min(al.Optional, 3))
		v.Out = o
		return v
	}
	// classify the disagreement
	ic, _ := canon.Source([]byte(c.File), opts)
	if len(al.Canon) == 0 {
		return bad("output-for-unparseable-rewrite", "every permitted rewrite is unparseable, but gopatch returned:\n%s", out)
	}
	if gc == ic {
		return bad("not-rewritten", "the file contains %d instance(s) that must be rewritten but the output is syntactically identical to the input\nexpected e.g.:\n%s", al.Mandatory, anyOf(al.Canon))
	}
	if missed, ok := a.SubsetExplaining(gc, opts); ok {
		return bad("missed:"+strings.Join(missed, "+"), "gopatch rewrote only some of the instances that must be rewritten; missed: %v\ngot:\n%s\nexpected e.g.:\n%s", missed, out, anyOf(al.Canon))
	}
	return bad("wrong-output", "output is none of the %d permitted results\ngot:\n%s\nexpected e.g.:\n%s", len(al.Canon), out, anyOf(al.Canon))
}

func anyOf(m map[string]string) string {
	var ks []string
	for k := range m {
		ks = append(ks, k)
	}
	sort.Strings(ks)
	if len(ks) == 0 {
		return "<none>"
	}
	return m[ks[0]]
}

func stripPos(s string) string {
	// drop file:line:col prefixes so that rejection reasons group together
	f := strings.Fields(s)
	var out []string
	for _, w := range f {
		if strings.Count(w, ":") >= 2 && strings.Contains(w, ".patch") {
			continue
		}
		out = append(out, w)
	}
	return strings.Join(out, " ")
}

// SCase is a model trace with a sequence of changes in one patch file.
type SCase struct {
	Changes []*model.Change `json:"changes"`
	File    string          `json:"file"`
	Tag     string          `json:"tag,omitempty"`
	Decoy   string          `json:"decoy,omitempty"` // single-change cases: file applied first with the same parsed patch
}

// judgeSeq compares the chained model prediction with one Apply of the
// rendered multi-change patch.
func judgeSeq(c *SCase, opts canon.Options) core.Outcome { return judgeSeqWith(nil, c, opts) }

// judgeSeqBoth: library API and command line.
func judgeSeqBoth(env *core.Env, c *SCase, opts canon.Options) core.Outcome {
	o := judgeSeqWith(nil, c, opts)
	if o.Violation != "" || o.Skip != "" {
		return o
	}
	o2 := judgeSeqWith(env, c, opts)
	if o2.Violation != "" {
		o2.Violation = "[command line, in place] " + o2.Violation
		o2.FindingKey += "/cli"
		return o2
	}
	return o
}

func judgeSeqWith(env *core.Env, c *SCase, opts canon.Options) core.Outcome {
	var ccs []*model.Compiled
	for _, ch := range c.Changes {
		cc, err := model.Compile(ch)
		if err != nil {
			panic(fmt.Sprintf("generator produced a change the model cannot parse: %v\n%s", err, ch.Render()))
		}
		ccs = append(ccs, cc)
	}
	ptext := model.RenderAll(c.Changes)
	pf, err := patch.Parse("m.patch", []byte(ptext))
	if err != nil {
		return core.Outcome{Skip: "patch rejected: " + firstWords(stripPos(err.Error()), 7)}
	}
	sr, err := model.AllowedSeq(ccs, []byte(c.File), opts)
	if err != nil {
		panic(err)
	}
	if sr.TooMany {
		return core.Outcome{Skip: "more optional sites than the enumeration bound"}
	}
	if sr.Err != nil || sr.Unparse {
		return core.Outcome{Skip: "sequence with a failing or unparseable step (subject of C09/C07)"}
	}
	applied := 0
	for _, a := range sr.Applied {
		if a {
			applied++
		}
	}
	o := core.Outcome{Nontrivial: applied > 0, Transitions: len(c.Changes) + sr.Mandatory + sr.Optional, States: 1 + len(sr.Canon),
		Class: fmt.Sprintf("changes-applied=%d/%d", applied, len(c.Changes))}
	bad := func(key, format string, args ...any) core.Outcome {
		o.Violation = fmt.Sprintf(format, args...) + "\n--- patch:\n" + ptext + "--- file:\n" + c.File
		o.FindingKey = key
		return o
	}
	out, aerr := pf.Apply("a.go", []byte(c.File))
	if env != nil {
		out, aerr, _ = cliRunner(env)(ptext, &MCase{File: c.File})
	}
	if aerr != nil {
		return bad("error-on-valid-rewrite", "Apply fails: %v\nexpected e.g.:\n%s", aerr, anyOf(sr.Canon))
	}
	if applied == 0 {
		if !bytes.Equal(out, []byte(c.File)) {
			return bad("rewrote-non-instance", "no change applies according to the model, but the output differs from the input:\n%s", out)
		}
		return o
	}
	gc, perr := canon.Source(out, opts)
	if perr != nil {
		return bad("unparseable-output", "output does not parse: %v\n%s", perr, out)
	}
	if _, ok := sr.Canon[gc]; !ok {
		ic, _ := canon.Source([]byte(c.File), opts)
		if gc == ic {
			return bad("not-rewritten", "output is syntactically identical to the input although %d change(s) apply\nexpected e.g.:\n%s", applied, anyOf(sr.Canon))
		}
		return bad("wrong-output", "output is none of the %d permitted results\ngot:\n%s\nexpected e.g.:\n%s", len(sr.Canon), out, anyOf(sr.Canon))
	}
	return o
}
