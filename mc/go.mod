module verifmc

go 1.22

require github.com/uber-go/gopatch v0.0.0

require (
	github.com/google/go-intervals v0.0.2 // indirect
	go.uber.org/multierr v1.11.0 // indirect
	golang.org/x/mod v0.20.0 // indirect
	golang.org/x/sync v0.8.0 // indirect
	golang.org/x/tools v0.24.0 // indirect
)

replace github.com/uber-go/gopatch => /repo
