package a

func f() {
	x := foo(1 +
//line x.go:300000000
		2)
	_ = x
}
