package a

func f() {
	x()
	foo(1, 2)
}
