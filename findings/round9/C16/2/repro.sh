#!/usr/bin/env bash
# usage: repro.sh /path/to/gopatch   (run inside a copy of this directory)
G=${1:?}; rm -f link.go pipe.go; ln -s real.go link.go; mkfifo pipe.go
timeout 10 "$G" -p p.patch link.go pipe.go; echo "exit status: $?"; cat real.go
rm -f link.go pipe.go
