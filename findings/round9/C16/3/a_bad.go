package a
func {