package a

func g() { foo(2) }
