#!/usr/bin/env bash
# usage: repro.sh /path/to/gopatch   (run inside a copy of this directory that uid 65534 may traverse;
# as root the script drops to uid 65534 with setpriv, because root ignores mode 000)
G=${1:?}; chmod 000 b_unreadable.go; chmod a+rw a_bad.go c_ok.go .
run=(); [ "$(id -u)" = 0 ] && run=(setpriv --reuid=65534 --regid=65534 --clear-groups)
"${run[@]}" "$G" -p p.patch a_bad.go b_unreadable.go c_ok.go; echo "exit status: $?"; cat c_ok.go
chmod 644 b_unreadable.go
