package a

func f() { foo(1) }
