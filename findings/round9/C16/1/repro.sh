#!/usr/bin/env bash
# usage: repro.sh /path/to/gopatch   (run inside a copy of this directory)
G=${1:?}; mkdir -p listdir
"$G" -P listdir a.go; echo "exit status: $?"; cat a.go
