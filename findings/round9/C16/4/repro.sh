#!/usr/bin/env bash
# usage: repro.sh /path/to/gopatch   (run inside a copy of this directory)
G=${1:?}
"$G" -p p.patch --print-only a.go; echo "exit status: $?"
