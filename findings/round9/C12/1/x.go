package x

var foo int
