package x

func g()   { baz() }
