package x

func f() {
	foo()
	baz()
}
