package x

func f() {
	foo(1, 0, 2)
}
