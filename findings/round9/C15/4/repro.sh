#!/bin/bash
# usage: repro.sh <checkout>
export GOFLAGS=-mod=mod GOPROXY=off GOSUMDB=off GOTOOLCHAIN=local
here=$(cd "$(dirname "$0")" && pwd); tmp=$(mktemp -d); trap 'rm -rf "$tmp"' EXIT
(cd "$1" && go build -o "$tmp/gopatch" .) || exit 2
cp -a "$here/tree" "$here/p.patch" "$tmp/"
mkdir "$tmp/gone"; cd "$tmp/gone" && rmdir "$tmp/gone"
echo "--- (cwd has been removed) gopatch -v -p <tmp>/p.patch <tmp>/tree/a.go     -- all paths absolute"
"$tmp/gopatch" -v -p "$tmp/p.patch" "$tmp/tree/a.go"; echo "exit $?"
cd /; echo "a.go patched: $(grep -c 'bar()' "$tmp/tree/a.go")  (expected 1)"
