package p

func f(n int) {
	count(n)
}
