#!/bin/bash
# usage: repro.sh <checkout>
export GOFLAGS=-mod=mod GOPROXY=off GOSUMDB=off GOTOOLCHAIN=local
here=$(cd "$(dirname "$0")" && pwd); tmp=$(mktemp -d); trap 'rm -rf "$tmp"' EXIT
(cd "$1" && go build -o "$tmp/gopatch" .) || exit 2
cp -a "$here/tree" "$here/p.patch" "$tmp/"
cd "$tmp/tree" || exit 2
echo "--- gopatch -v -p ../p.patch real/sub link/sub"
"$tmp/gopatch" -v -p ../p.patch real/sub link/sub; echo "exit $?"
echo "--- real/sub/b.go afterwards (expected: count(n + 1), once)"
cat real/sub/b.go
