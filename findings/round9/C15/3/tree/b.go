package p

func f() {
	foo()
}
