#!/bin/bash
# usage: repro.sh <checkout>
export GOFLAGS=-mod=mod GOPROXY=off GOSUMDB=off GOTOOLCHAIN=local
here=$(cd "$(dirname "$0")" && pwd); tmp=$(mktemp -d); trap 'rm -rf "$tmp"' EXIT
(cd "$1" && go build -o "$tmp/gopatch" .) || exit 2
cp -a "$here/tree" "$here/p.patch" "$tmp/"
cd "$tmp/tree" || exit 2
echo "--- ( sleep 0.5; gopatch -v -p ../p.patch . ) | true     (reader of stdout already gone)"
( sleep 0.5; "$tmp/gopatch" -v -p ../p.patch . ; echo "gopatch exit $?" >&2 ) | true
echo "files patched: $(grep -l 'bar()' a.go b.go c.go | tr '\n' ' ')  (expected: a.go b.go c.go)"
