#!/bin/bash
# usage: repro.sh <checkout>   (builds gopatch, works on a copy of ./tree)
export GOFLAGS=-mod=mod GOPROXY=off GOSUMDB=off GOTOOLCHAIN=local
here=$(cd "$(dirname "$0")" && pwd); tmp=$(mktemp -d); trap 'rm -rf "$tmp"' EXIT
(cd "$1" && go build -o "$tmp/gopatch" .) || exit 2
cp -a "$here/tree" "$here/p.patch" "$tmp/"
cd "$tmp/tree/link" || exit 2          # the shell sets PWD=<tmp>/tree/link, a symlink to <tmp>/tree/real
echo "PWD=$PWD"
echo "--- gopatch -v -p ../../p.patch .      (cwd spelled through a symlink)"
"$tmp/gopatch" -v -p ../../p.patch . ; echo "exit $?"
echo "--- gopatch -v -p ../../p.patch ./..."
"$tmp/gopatch" -v -p ../../p.patch ./... ; echo "exit $?"
echo "files containing bar(): $(grep -rl 'bar()' "$tmp/tree/real" | wc -l)   (expected 2)"
echo "--- same with PWD removed from the environment"
env -u PWD "$tmp/gopatch" -v -p ../../p.patch . ; echo "exit $?"
echo "files containing bar(): $(grep -rl 'bar()' "$tmp/tree/real" | wc -l)"
