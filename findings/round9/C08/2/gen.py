# regenerates big.go: python3 gen.py 20000 > big.go
import sys
n = int(sys.argv[1]) if len(sys.argv) > 1 else 20000
body = "".join("\tbaz(%d)\n" % i for i in range(n))
sys.stdout.write("package x\n\nfunc _() {\n\tfoo()\n%s}\n" % body)
