package x

func _() {
	foo()
}
