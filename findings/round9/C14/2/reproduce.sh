#!/bin/bash
set -u
bin=$(readlink -f "$1"); here=$(cd "$(dirname "$0")" && pwd)
tmp=$(mktemp -d); trap 'rm -rf "$tmp"' EXIT
cp "$here"/p.patch "$here"/a.go "$tmp"/ && cd "$tmp"
"$bin" -d -p p.patch a.go "$tmp/a.go" > out1.txt
"$bin" -d -p p.patch "$tmp/a.go" a.go > out2.txt
if cmp -s out1.txt out2.txt; then echo "same output in both argument orders"; else echo "DIFFERENT output (expected same):"; diff out1.txt out2.txt; fi
