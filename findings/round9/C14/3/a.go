package x

func f() {
	inc(1)
}
