#!/bin/bash
set -u
bin=$(readlink -f "$1"); here=$(cd "$(dirname "$0")" && pwd)
tmp=$(mktemp -d); trap 'rm -rf "$tmp"' EXIT
cd "$tmp" && mkdir real && cp "$here/a.go" real/ && cp "$here/p.patch" . && ln -s real link
"$bin" -p p.patch real/a.go; echo "alone:"; grep inc real/a.go
cp "$here/a.go" real/a.go
"$bin" -p p.patch real/a.go link/a.go; echo "together with its alias link/a.go (expected the same line):"; grep inc real/a.go
