package x

func f() {
	foo()
}
