#!/bin/bash
# usage: reproduce.sh /path/to/gopatch-binary
set -u
bin=$(readlink -f "$1"); here=$(cd "$(dirname "$0")" && pwd)
tmp=$(mktemp -d); trap 'rm -rf "$tmp"' EXIT
cp "$here"/p.patch "$here"/a.go "$here"/b.go "$here"/c.go "$tmp"/ && cd "$tmp"
( sleep 0.5; exec "$bin" -v -p p.patch a.go b.go c.go ) | true
echo "exit status of gopatch: ${PIPESTATUS[0]} (expected 0)"
for f in a.go b.go c.go; do
  if grep -q 'bar()' $f; then echo "$f: patched"; else echo "$f: NOT patched (expected patched)"; fi
done
