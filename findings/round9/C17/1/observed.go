// Header.

package a

// doc fmt import
import (
	"fmt"
	"os"
	"strings"
) // trailing fmt

// doc os import
// trailing os

// doc group

// lead strings
// trailing strings
/* dangling in group */

// K doc
func K() { fmt.Println(os.Args, strings.ToUpper("x")) } // k trailing

// T doc
func T() {
	bar(1)
}
