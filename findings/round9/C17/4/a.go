package a

// T doc
func T() {
	f()
}

// K doc
func K() {
	// inside K
}
