package a

// T doc
func T() {
	h().Method()
}

func K() {}
