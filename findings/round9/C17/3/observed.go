package a // the a package
// K doc
import "bar"

func K() {}

func T() {
	bar.Bar(1)
}
