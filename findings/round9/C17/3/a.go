package a // the a package
// K doc
func K() {}

func T() {
	foo(1)
}
