// Copyright header.

// Package a doc.
package a

import "bar"

var (
	Foo = "hello"
)

// K doc
func K() {
	// inside K
}

// T doc
func T() {
	bar.Bar(1)
}
