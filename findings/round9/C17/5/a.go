// Copyright header.

// Package a doc.
package a
// note directly below the package clause

const (
	Foo = "hello"
)

// K doc
func K() {
	// inside K
}

// T doc
func T() {
	foo(1)
}
