package a

// doc group
import
// lead strings
"strings" // trailing strings
/* dangling in group */

// K doc
func K() { strings.ToUpper("x") } // k trailing

func T() {
	bar(1)
}
