// Header.

package a

// doc fmt import
import "fmt" // trailing fmt

// doc os import
import "os" // trailing os

// doc group
import
// lead strings
"strings" // trailing strings
/* dangling in group */

// K doc
func K() { fmt.Println(os.Args, strings.ToUpper("x")) } // k trailing

// T doc
func T() {
	bar(1)
}
