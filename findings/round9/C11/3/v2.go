package a

import (
	"os"

	"gopkg.in/yaml.v2"
)

func f(v interface{}) {
	_ = os.Args
	yaml.Marshal(v)
	yaml.Unmarshal(nil, v)
}
