package a

import "example.com/a"

var name = "example.com/a"

func f() { a.F(name) }
