package a

import (
	"fmt"
	"os"
)

func f() {
	fmt.Println(os.Args)
}
