package a

import (
	foo "example.com/a"
)

func f() {
	foo.F(1)
}
