package a

var x T

func f() {
	use(x)
}
