package a

const mask = oldMask

func f() int {
	return legacy()
}
