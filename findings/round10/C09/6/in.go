package a

func gross(price, tax int) int {
	total := price + tax
	return total * 2
}

func net(total int) int {
	return total * 2
}
