package a

func f() {
	a()
}
