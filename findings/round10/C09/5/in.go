package a

import "aaa"

//go:noinline
func f() {
	aaa.F()
}
