package a

import "path"

func base(s string) string {
	return path.Base(s)
}

func open(path *Path) {
	legacyOpen(path)
}
