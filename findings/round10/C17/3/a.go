// Package foo doc.
package foo

/*
#include <stdio.h>
*/
import "C" // needs libc

// A doc.
func A() { foo(1, 2); C.puts(nil) }
