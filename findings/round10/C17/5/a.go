/*
Copyright etc. Usage example for this package:

import (
	"os"
	"github.com/x/y"
)
*/

// Package foo is documented here.
package foo

import (
	"github.com/x/y"
	"os"
)

// A doc.
func A() { foo(1, 2); y.Y(os.Args) }
