package foo

// doc of unsafe decl
import (
	// Needed for go:linkname.
	_ "unsafe" // trailing unsafe
	// keep this block last
)

import "os"

func A() { _ = os.Args }

// B doc.
func B() {}
