package foo

// B frobs. Steps:
//   1. first
//   2. second
//go:noinline
// See also A.
func B() {}

// A doc.
func A() { foo(1, 2) }
