package foo

var _ = foo(1)

var _ = foo(2)

var _ = bar(1)

// U doc.
func U() {
	// inside U
	keep() // trailing keep
	/* block in U */
} // trailing U

var _ = bar(2)

var _ = foo(11)

var _ = foo(12)

var _ = foo(13)
