// Package foo doc.
package foo

import "os"

/*
#include <stdio.h>
*/
import "C"

// A doc.
func A() { C.puts(os.Args) }
