// Package foo doc.
package foo

// Copyright notice placed after the package clause.

import "os"

// fmt is needed for printing.
import "fmt" // trailing fmt

// A doc.
func A() { fmt.Println(os.Args) }
