package a

func g() {
	lock(mu, 1)
	work(job, 2)
}
