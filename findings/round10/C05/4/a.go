package a

func g() int {
	x := /* c1: outside the fragment */ bbb
	var y int = /* c2 */ bbb
	use(x, y)
	return /* c9: outside the fragment */ bbb
}
