package a

import (
	"fmt"
	"time"
)

type T struct {
	D time.Duration "time"
}

func g() {
	fmt.Println("time", time.Now())
}
