package foo

import foo "example.com/x/foo"

type T struct{ foo int }

func (t T) foo() {
foo:
	for {
		_ = foo.X + t.foo
		break foo
	}
}
