package a

import "fmt"

/*
#include <stdio.h>
*/
import "C"

import "os"

func g() { foo(C.x); fmt.Println(os.Args) }
