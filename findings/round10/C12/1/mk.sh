#!/bin/sh
# creates a.go: a valid Go file with one 70000-byte string literal line
python3 - <<'PY'
s = "package a\n\nvar data = \"" + "x"*70000 + "\"\n\nfunc f() {\n\tfoo(1)\n}\n"
open("a.go","w").write(s)
PY
