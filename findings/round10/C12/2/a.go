package a

func f() {
	foo(1)
	foo(2) // c
}
