package a

func g() {
	baz(1)
}
