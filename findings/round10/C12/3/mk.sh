#!/bin/sh
# creates a.go: one function with 12000 lines "foo(i)"
python3 - <<'PY'
lines=["package a","","func f() {"]+["\tfoo(%d)" % i for i in range(12000)]+["}"]
open("a.go","w").write("\n".join(lines)+"\n")
PY
