#!/bin/sh
N=$(python3 -c 'print("a"*235)')
printf 'package a\n\nfunc f() {\n\tfoo(1)\n}\n' > $N.go
