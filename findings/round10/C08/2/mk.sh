#!/bin/sh
# a.go: 32 KB, one composite literal nested 16000 deep around the identifier foo
# b.go: 48 KB, the same with nested calls f(f(f(...foo...)))
python3 -c "
n=16000
print('package a\n\nvar x = T' + '{'*n + 'foo' + '}'*n)" > a.go
python3 -c "
n=16000
print('package a\n\nvar x = ' + 'f('*n + 'foo' + ')'*n)" > b.go
