#!/bin/sh
# creates a.go: one function with 12000 statements "foo()" (84 KB)
python3 -c "
n=12000
print('package a\nfunc f() {\n' + '\tfoo()\n'*n + '}')" > a.go
