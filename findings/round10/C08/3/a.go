package a

var v = f(a)
