#!/bin/sh
rm -rf t u; mkdir -p t u
printf 'package a\n\nfunc f() {\n\tfoo(1 + 2)\n}\n' > t/a.go     # engine fails on this one
printf 'package a\n\nfunc g( {\n' > t/b.go                        # does not parse
printf 'package a\n\nfunc h() {\n\tfoo(3)\n}\n' > t/c.go
chmod 000 t/c.go                                                  # cannot be read
printf 'package a\n\nfunc g( {\n' > u/a.go                        # does not parse
printf 'package a\n\nfunc h() {\n}\n' > u/b.go                    # no match
chmod -R a+rX . ; chmod 000 t/c.go
