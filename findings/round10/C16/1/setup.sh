#!/bin/sh
# creates the tree under ./tree
rm -rf tree; mkdir -p tree/real tree/testdata/sub tree/_gen
for f in tree/real/a.go tree/testdata/sub/b.go tree/_gen/c.go; do
  printf 'package a\n\nfunc f() {\n\tfoo()\n}\n' > $f
done
cp tree/real/a.go tree/notes.txt
ln -s real/a.go tree/link.go      # symbolic link to a Go file
ln -s real tree/linkdir           # symbolic link to a directory
