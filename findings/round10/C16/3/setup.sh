#!/bin/sh
rm -rf d; mkdir d
python3 - <<'PY'
n=20000
open('d/a_big.go','w').write('package a\n\nfunc f() {\n' + ''.join('\tfoo()\n\tx%d()\n'%i for i in range(n)) + '}\n')
open('d/b.go','w').write('package a\n\nfunc f() {\n\tfoo()\n}\n')
PY
