#!/bin/sh
# usage: GOPATCH=/path/to/gopatch sh run.sh     (creates ./t)
asuser() { if [ "$(id -u)" = 0 ]; then setpriv --reuid=65534 --regid=65534 --clear-groups "$@"; else "$@"; fi; }
rm -rf t; mkdir -p t/sub/locked
printf 'package p\n\nfunc a() { foo(1) }\n' > t/a.go
printf 'package p\n\nfunc s() { foo(2) }\n' > t/sub/s.go
chmod -R a+rwX t; chmod a+r p.patch; chmod 000 t/sub/locked
echo "== a.go together with directory sub (which has an unreadable subdirectory)"
asuser "$GOPATCH" -p p.patch t/a.go t/sub; echo "rc=$?"; tail -qn1 t/a.go t/sub/s.go
echo "== a.go together with a name that does not exist"
asuser "$GOPATCH" -p p.patch t/a.go t/nosuch.go; echo "rc=$?"; tail -qn1 t/a.go
echo "== a.go alone"
asuser "$GOPATCH" -p p.patch t/a.go; echo "rc=$?"; tail -qn1 t/a.go
chmod 755 t/sub/locked
