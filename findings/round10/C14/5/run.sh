#!/bin/sh
# usage: GOPATCH=/path/to/gopatch sh run.sh     (creates ./t)
rm -rf t; mkdir t
long=$(python3 -c "print('a'*245+'.go')")      # 248 bytes: a legal file name (limit 255)
printf 'package p\n\nfunc a() { foo(1) }\n' > "t/$long"
cp "t/$long" t/b.go                             # the same bytes under a short name
"$GOPATCH" -p p.patch t 2>&1 | cut -c1-60,300-; echo "rc=$?"
for f in t/*.go; do echo "$(echo $f | cut -c1-12)...: $(tail -n1 $f)"; done
