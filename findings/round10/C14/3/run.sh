#!/bin/sh
# usage: GOPATCH=/path/to/gopatch sh run.sh [depth]   (creates ./t)
n=${1:-4000}
rm -rf t; mkdir t
python3 - "$n" <<'PY'
import sys
n=int(sys.argv[1])
open('t/a.go','w').write('package p\n\nfunc f() int {\n\treturn '+'foo('*n+'1'+')'*n+'\n}\n')
open('t/z.go','w').write('package p\n\nfunc g() { foo(2) }\n')
PY
ls -l t/a.go
( ulimit -v 4000000; timeout 300 "$GOPATCH" -p p.patch t 2>&1 | head -3 )
tail -n1 t/z.go
echo "== z.go alone"
( ulimit -v 4000000; timeout 300 "$GOPATCH" -p p.patch t/z.go ); tail -n1 t/z.go
