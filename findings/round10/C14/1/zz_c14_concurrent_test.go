package patch

// Copy into the worktree's patch/ directory and run
//   go test -vet=off -count=1 -v -run TestC14ConcurrentApplyChangesResult ./patch

import (
	"bytes"
	"strings"
	"testing"
	"time"
)

const c14Patch = "@@\n@@\n-foo\n+barbarbarbarbarbarbarbarbarbarbarbarbarbarbar\n"

// a.go: everything up to "f(a," is on line 1, "foo)" on line 2 is the end of
// the file. The long first line only makes Apply take a second or so.
func c14A() []byte {
	return []byte("package p; func g() { " + strings.Repeat("x(); ", 100000) + "}; var _ = f(a,\n\tfoo)\n")
}

// b.go: any file whose first line is at least 40 bytes long.
var c14B = []byte("package p; var _, _, _, _, _, _ = 1, 2, 3, 4, 5, 6\n")

func c14Tail(b []byte) string {
	s := string(b)
	return s[strings.LastIndex(s, "var _ = f("):]
}

func TestC14ConcurrentApplyChangesResult(t *testing.T) {
	// Result of a.go alone (fresh parsed patch).
	pf, err := Parse("p.patch", []byte(c14Patch))
	if err != nil {
		t.Fatal(err)
	}
	alone, err := pf.Apply("a.go", c14A())
	if err != nil {
		t.Fatal(err)
	}

	// Same patch text, parsed again; a.go and b.go applied at the same time.
	pf, err = Parse("p.patch", []byte(c14Patch))
	if err != nil {
		t.Fatal(err)
	}
	done := make(chan []byte)
	go func() {
		out, err := pf.Apply("a.go", c14A())
		if err != nil {
			t.Error(err)
		}
		done <- out
	}()
	time.Sleep(50 * time.Millisecond) // a.go has been parsed, is being matched
	if _, err := pf.Apply("b.go", c14B); err != nil {
		t.Fatal(err)
	}
	together := <-done

	t.Logf("alone:      %q", c14Tail(alone))
	t.Logf("concurrent: %q", c14Tail(together))
	if !bytes.Equal(alone, together) {
		t.Errorf("result for a.go differs when b.go is applied concurrently with the same parsed patch")
	}
}
