#!/bin/sh
# usage: GOPATCH=/path/to/gopatch sh run.sh     (creates ./t1 and ./t2)
# Needs a non-root user for chmod 000 to take effect; when run as root the tool is
# started through setpriv as uid 65534.
set -u
asuser() { if [ "$(id -u)" = 0 ]; then setpriv --reuid=65534 --regid=65534 --clear-groups "$@"; else "$@"; fi; }
mk() { rm -rf "$1"; mkdir "$1"
  printf 'package p\n\nfunc a() { foo(1) }\n' > "$1/a.go"
  printf 'package p\n\nfunc z() { foo(3) }\n' > "$1/z.go"; }
mk t1; printf 'package p\n\nfunc m() { foo(2) }\n' > t1/m.go; chmod 000 t1/m.go   # unreadable
mk t2; printf 'package p\n\nfunc m() { foo(2) \n'  > t2/m.go                      # does not parse
chmod -R a+rwX t1 t2; chmod 000 t1/m.go; chmod a+r p.patch
echo "== t1: m.go unreadable";   asuser "$GOPATCH" -p p.patch t1; echo "rc=$?"; tail -qn1 t1/a.go t1/z.go
echo "== t2: m.go unparseable";  asuser "$GOPATCH" -p p.patch t2; echo "rc=$?"; tail -qn1 t2/a.go t2/z.go
chmod 644 t1/m.go
