package a

func f() {
	a := load(base + off)
	b := load(x.y)
	c := load(i << 2)
	d := 2 * load(q-1)
	use(a, b, c, d)
}
