package a

func f() {
	foo(foo(1))
	foo(func() int { return foo(2) }())
	baz(foo(3), foo(foo(4)+foo(5)))
}
