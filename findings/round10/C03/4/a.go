package a

func f() {
	use(timeout)
}

func g() {
	timeout := 5
	use(timeout)
	for timeout := range xs {
		use(timeout)
	}
}
