package a

func f() {
	if a {
		if a {
			foo()
		}
		foo()
	}
}
