package a

var _ = foo
