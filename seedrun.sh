#!/bin/bash
# seedrun.sh <patch.diff> <ID> [tier]  — apply a seeded change to /repo, run the check, always undo.
set -u
diff="$(realpath "$1")"; id="$2"; tier="${3:-quick}"
cd /repo || exit 2
if [ -n "$(git status --porcelain --untracked-files=no)" ]; then echo "/repo not clean" >&2; exit 2; fi
git apply "$diff" || { echo "cannot apply $diff" >&2; exit 2; }
trap 'git -C /repo checkout -- . >/dev/null 2>&1' EXIT
cd /verif && VERIF_EVIDENCE_DIR=$(mktemp -d /tmp/seedev.XXXX) ./check "$id" "$tier" 2>&1 | grep -E "^(VIOLATION|KNOWN|C[0-9]+ |BUILD|INFRA)" | head -${SEED_LINES:-6}
echo "exit=${PIPESTATUS[0]}"
