#!/usr/bin/env python3
"""refresh_design_table.py — rewrite the `cases` and `wall` columns of DESIGN.md §5 from evidence/*.json (quick tier)."""
import json, re
s = open('/verif/DESIGN.md').read()
out = []
for line in s.split('\n'):
    m = re.match(r'^\| (C\d\d) \|', line)
    if m and line.count('|') >= 6:
        try:
            ev = json.load(open(f'/verif/evidence/{m.group(1)}.json'))
            if ev.get('tier') == 'quick':
                cols = line.rstrip().rstrip('|').split('|')
                n = ev['coverage']['cases_generated']
                cols[-2] = ' ' + f'{n:,}'.replace(',', ' ') + ' '
                cols[-1] = ' %d s ' % round(ev['wall_s'])
                line = '|'.join(cols) + '|'
        except Exception as e:
            pass
    out.append(line)
open('/verif/DESIGN.md', 'w').write('\n'.join(out))
