// This program is NOT part of uber-go/gopatch. It is built by /verif with
// `go build -overlay` as the virtual package github.com/uber-go/gopatch/verifc14
// against instrumented copies of the gopatch sources (yield points calling
// verifsched.Point). It explores, exhaustively up to a preemption bound, the
// interleavings of several logical threads that call (*patch.File).Apply on one
// parsed patch, under a cooperative scheduler: exactly one thread runs at any
// time and control changes hands only at yield points.
//
//	verifc14 explore  <scenario> <bound> <shard> <nshards>   -> JSON summary on stdout
//	verifc14 replay   <scenario> <c0,c1,...>                 -> runs the schedule twice, prints observations
//	verifc14 race     <reps>                                 -> free-running goroutines (for a -race build)
//	verifc14 list                                            -> scenario names
package main

import (
	"bytes"
	"crypto/sha256"
	"encoding/json"
	"fmt"
	"os"
	"runtime/debug"
	"strconv"
	"strings"
	"sync"
	"time"

	"github.com/uber-go/gopatch/patch"
	"github.com/uber-go/gopatch/verifsched"
)

type scenario struct {
	Name  string
	Patch string
	Files []string // thread i applies Files[i]
}

var scenarios = []scenario{
	{"expr-two-matching-files",
		"@@\nvar x expression\n@@\n-foo(x)\n+bar(x, x)\n",
		[]string{"package a\n\n// doc\nfunc f() {\n\tfoo(1) // c\n}\n", "package b\n\nfunc g() {\n\tfoo(2 + 3)\n\tif foo(4) {\n\t}\n}\n"}},
	{"stmt-elision-import-add",
		"@@\nvar x expression\nvar v identifier\n@@\n+import \"new/q\"\n\n-v := foo(x)\n ...\n-use(v)\n+q.Use(foo(x))\n",
		[]string{"package a\n\nfunc f() {\n\ta := foo(1)\n\tmid()\n\tuse(a)\n}\n", "package b\n\nimport \"fmt\"\n\nfunc g() {\n\tb := foo(fmt.Sprint(2))\n\tuse(b)\n\ttail()\n}\n"}},
	{"two-changes",
		"@@\nvar x expression\n@@\n-old(x)\n+mid(x, x)\n\n@@\nvar y expression\n@@\n-mid(y, y)\n+done(y)\n",
		[]string{"package a\n\nvar v = old(1)\n", "package b\n\nfunc g() { old(old(2)); mid(3, 3) }\n"}},
	{"decl-with-elisions-and-failure",
		"@@\nvar n identifier\n@@\n-func n(a int, ...) error {\n+func n(a int64, ...) error {\n   ...\n }\n",
		[]string{"package a\n\n// G doc.\nfunc G(a int, b string) error {\n\treturn nil // t\n}\n", "package b\n\nfunc broken( {\n"}},
	{"same-file-twice",
		"@@\nvar x expression\n@@\n import \"fmt\"\n\n-fmt.Println(x)\n+fmt.Print(x)\n",
		[]string{"package a\n\nimport \"fmt\"\n\nfunc f() { fmt.Println(1) }\n", "package a\n\nimport \"fmt\"\n\nfunc f() { fmt.Println(1) }\n"}},
	{"match-and-no-match",
		"@@\nvar x expression\n@@\n-foo(x)\n+bar(x)\n",
		[]string{"package a\n\nfunc f() { foo(1) }\n", "package b\n\nfunc g() { other(2) }\n"}},
	{"import-metavar-two-names",
		"@@\nvar n identifier\nvar x expression\n@@\n-import n \"old/p\"\n+import n \"new/p\"\n\n-n.Foo(x)\n+n.Bar(x)\n",
		[]string{"package a\n\nimport pp \"old/p\"\n\nfunc f() { pp.Foo(1) }\n", "package b\n\nimport (\n\t\"fmt\"\n\tqq \"old/p\"\n)\n\nfunc g() { fmt.Println(qq.Foo(2)) }\n"}},
	{"engine-panic-and-healthy",
		"@@\nvar x expression\n@@\n-sel(x)\n+bar.x\n",
		[]string{"package a\n\nfunc f() { sel(1 + 2) }\n", "package b\n\nfunc g() { sel(y) }\n"}},
	{"commented-code-removed",
		"@@\nvar x expression\n@@\n setup0()\n-debug(x)\n",
		[]string{"package a\n\nfunc f() {\n\tsetup0()\n\tdebug(func() {\n\t\t// inner\n\t})\n\ttail() // t\n}\n", "package b\n\n// doc\nfunc g() {\n\tsetup0()\n\tdebug(1) // gone\n\t// own\n\ttail()\n}\n"}},
	// the rewritten identifier keeps the position of the short one it replaces, so that its end lies beyond the
	// end of its file: what the printer learns about that position depends on the files added to the FileSet later
	{"position-beyond-end-of-file",
		"@@\n@@\n-foo\n+barbarbarbarbarbarbarbarbarbarbarbarbarbarbarbar\n",
		[]string{"package a; var _ = f(a,\n\tfoo)\n", "package b; var _, _, _, _, _, _, _, _ = foo, 2, 3, 4, 5, 6, 7, 8\n"}},
	{"three-threads",
		"@@\nvar x expression\n@@\n-foo(x)\n+bar(x, x)\n",
		[]string{"package a\n\nfunc f() { foo(1) }\n", "package b\n\nfunc g() { foo(2 + 3) }\n", "package c\n\nfunc h() { other(0) }\n"}},
}

type result struct {
	Out   string
	Err   string
	Panic string
}

func (r result) key() string { return r.Out + "\x00" + r.Err + "\x00" + r.Panic }

func applyOne(pf *patch.File, name, src string) (res result) {
	defer func() {
		if p := recover(); p != nil {
			res.Panic = fmt.Sprintf("%v\n%s", p, debug.Stack())
		}
	}()
	out, err := pf.Apply(name, []byte(src))
	res.Out = string(out)
	if err != nil {
		res.Err = err.Error()
	}
	return res
}

func solo(sc scenario) []result {
	verifsched.SetHook(nil)
	var rs []result
	for i, f := range sc.Files {
		pf, err := patch.Parse("s.patch", []byte(sc.Patch))
		if err != nil {
			fatal("scenario patch rejected: %v", err)
		}
		rs = append(rs, applyOne(pf, fmt.Sprintf("f%d.go", i), f))
	}
	return rs
}

func fatal(format string, a ...any) {
	fmt.Fprintf(os.Stderr, "verifc14: "+format+"\n", a...)
	os.Exit(2)
}

// ---------------------------------------------------------------------------
// scheduler

type point struct {
	enabled        []int
	runningEnabled bool
}

type execution struct {
	choices []int
	points  []point
	results []result
	err     string // scheduler-level failure (divergence, deadlock)
}

type sched struct {
	prefix  []int
	step    int
	cur     int
	done    []bool
	resume  []chan struct{}
	allDone chan struct{}
	x       *execution
	failed  string
}

func (s *sched) decide(running int, runningEnabled bool) int {
	var enabled []int
	if runningEnabled {
		enabled = append(enabled, running)
	}
	for i, d := range s.done {
		if !d && !(runningEnabled && i == running) {
			enabled = append(enabled, i)
		}
	}
	if len(enabled) == 0 {
		return -1
	}
	idx := 0
	if s.step < len(s.prefix) {
		idx = s.prefix[s.step]
		if idx >= len(enabled) {
			s.failed = fmt.Sprintf("replay diverged at point %d: choice %d but only %d enabled threads", s.step, idx, len(enabled))
			idx = 0
		}
	}
	s.x.points = append(s.x.points, point{enabled: enabled, runningEnabled: runningEnabled})
	s.x.choices = append(s.x.choices, idx)
	s.step++
	return enabled[idx]
}

// hook is called by the running thread at every yield point.
func (s *sched) hook() {
	me := s.cur
	next := s.decide(me, true)
	if next != me {
		s.cur = next
		s.resume[next] <- struct{}{}
		<-s.resume[me]
	}
}

// run executes one schedule.
func run(sc scenario, prefix []int) *execution {
	verifsched.SetHook(nil)
	pf, err := patch.Parse("s.patch", []byte(sc.Patch))
	if err != nil {
		fatal("scenario patch rejected: %v", err)
	}
	n := len(sc.Files)
	s := &sched{prefix: prefix, done: make([]bool, n), resume: make([]chan struct{}, n), allDone: make(chan struct{}), x: &execution{results: make([]result, n)}}
	for i := range s.resume {
		s.resume[i] = make(chan struct{})
	}
	for i := 0; i < n; i++ {
		go func(i int) {
			<-s.resume[i]
			s.x.results[i] = applyOne(pf, fmt.Sprintf("f%d.go", i), sc.Files[i])
			s.done[i] = true
			next := s.decide(i, false)
			if next < 0 {
				close(s.allDone)
				return
			}
			s.cur = next
			s.resume[next] <- struct{}{}
		}(i)
	}
	first := s.decide(-1, false)
	s.cur = first
	verifsched.SetHook(s.hook)
	s.resume[first] <- struct{}{}
	select {
	case <-s.allDone:
	case <-time.After(30 * time.Second):
		s.x.err = "deadlock or hang: threads did not finish within 30 s"
	}
	verifsched.SetHook(nil)
	if s.failed != "" {
		s.x.err = s.failed
	}
	return s.x
}

// ---------------------------------------------------------------------------
// exploration

type violation struct {
	Schedule []int  `json:"schedule"`
	Detail   string `json:"detail"`
}

type summary struct {
	Scenario      string         `json:"scenario"`
	Bound         int            `json:"bound"`
	Shard         string         `json:"shard"`
	Executions    int            `json:"executions"`
	Points        int            `json:"points_total"`
	MaxPoints     int            `json:"points_max"`
	ByPreemptions map[string]int `json:"executions_by_preemptions"`
	Outcomes      int            `json:"distinct_outcomes"`
	Violations    []violation    `json:"violations"`
	Truncated     bool           `json:"truncated"`
	Sample        []int          `json:"sample_schedule"`
}

type explorer struct {
	sc       scenario
	solo     []result
	bound    int
	shard, n int
	sum      *summary
	outcomes map[string]bool
	seq      int
	deadline time.Time
}

func (e *explorer) check(x *execution) {
	e.sum.Executions++
	e.sum.Points += len(x.points)
	if len(x.points) > e.sum.MaxPoints {
		e.sum.MaxPoints = len(x.points)
	}
	pre := 0
	for i, p := range x.points {
		if p.runningEnabled && x.choices[i] != 0 {
			pre++
		}
	}
	e.sum.ByPreemptions[strconv.Itoa(pre)]++
	h := sha256.New()
	for _, r := range x.results {
		h.Write([]byte(r.key()))
	}
	e.outcomes[string(h.Sum(nil))] = true
	bad := x.err
	for i, r := range x.results {
		if bad == "" && r.key() != e.solo[i].key() {
			bad = fmt.Sprintf("thread %d (file %d) got a result different from its result alone:\n--- concurrent: out=%q err=%q panic=%q\n--- alone:      out=%q err=%q", i, i, r.Out, r.Err, firstLine(r.Panic), e.solo[i].Out, e.solo[i].Err)
		}
	}
	if bad != "" && len(e.sum.Violations) < 5 {
		// a failing schedule must fail the same way when replayed
		y := run(e.sc, x.choices)
		same := len(y.results) == len(x.results)
		for i := range x.results {
			if same && y.results[i].key() != x.results[i].key() {
				same = false
			}
		}
		if !same {
			bad = "NON-DETERMINISTIC REPLAY (harness problem, not a verdict): " + bad
		}
		e.sum.Violations = append(e.sum.Violations, violation{Schedule: append([]int{}, x.choices...), Detail: bad})
	}
	if e.sum.Sample == nil && pre > 0 {
		e.sum.Sample = append([]int{}, x.choices...)
	}
}

// explore runs the schedule given by prefix (continued without preemption)
// and then every schedule that deviates from it once more, within the bound.
// Work is split over shards at the first two levels of the tree: every shard
// walks the level-0 and level-1 nodes (to find their children) but only the
// owner of a node checks it; deeper subtrees belong to exactly one shard.
func (e *explorer) explore(prefix []int, depth int, mine bool) {
	if time.Now().After(e.deadline) {
		e.sum.Truncated = true
		return
	}
	x := run(e.sc, prefix)
	if x.err != "" && strings.HasPrefix(x.err, "replay diverged") {
		fatal("%s (the number of yield points is not a function of the schedule)", x.err)
	}
	if mine {
		e.check(x)
	}
	pre := 0
	for j := 0; j < len(prefix); j++ {
		if x.points[j].runningEnabled && x.choices[j] != 0 {
			pre++
		}
	}
	for i := len(prefix); i < len(x.points); i++ {
		p := x.points[i]
		cost := pre
		if p.runningEnabled {
			cost++
		}
		if cost > e.bound {
			continue
		}
		for alt := 1; alt < len(p.enabled); alt++ {
			np := append(append([]int{}, x.choices[:i]...), alt)
			switch {
			case depth == 0 && cost < e.bound:
				// this child can still deviate (with preemptions) many times: split its subtree too
				e.seq++
				e.explore(np, 1, e.seq%e.n == e.shard)
			case depth == 0:
				e.seq++
				if e.seq%e.n == e.shard {
					e.explore(np, 2, true)
				}
			case depth == 1:
				e.seq++
				if e.seq%e.n == e.shard {
					e.explore(np, 2, true)
				}
			default:
				e.explore(np, depth+1, true)
			}
		}
	}
}

func firstLine(s string) string {
	if i := strings.IndexByte(s, '\n'); i >= 0 {
		return s[:i]
	}
	return s
}

func main() {
	if len(os.Args) < 2 {
		fatal("usage: explore|replay|race|list")
	}
	switch os.Args[1] {
	case "list":
		for i, s := range scenarios {
			fmt.Println(i, s.Name, len(s.Files))
		}
	case "explore":
		k, _ := strconv.Atoi(os.Args[2])
		bound, _ := strconv.Atoi(os.Args[3])
		shard, _ := strconv.Atoi(os.Args[4])
		n, _ := strconv.Atoi(os.Args[5])
		budget := 600
		if len(os.Args) > 6 {
			budget, _ = strconv.Atoi(os.Args[6])
		}
		sc := scenarios[k]
		e := &explorer{sc: sc, solo: solo(sc), bound: bound, shard: shard, n: n, outcomes: map[string]bool{}, deadline: time.Now().Add(time.Duration(budget) * time.Second),
			sum: &summary{Scenario: sc.Name, Bound: bound, Shard: fmt.Sprintf("%d/%d", shard, n), ByPreemptions: map[string]int{}}}
		e.explore(nil, 0, shard == 0)
		e.sum.Outcomes = len(e.outcomes)
		b, _ := json.Marshal(e.sum)
		fmt.Println(string(b))
	case "replay":
		k, _ := strconv.Atoi(os.Args[2])
		var sched []int
		for _, f := range strings.Split(os.Args[3], ",") {
			if f != "" {
				c, _ := strconv.Atoi(f)
				sched = append(sched, c)
			}
		}
		sc := scenarios[k]
		so := solo(sc)
		failed := false
		var first []result
		for round := 0; round < 2; round++ {
			x := run(sc, sched)
			if x.err != "" {
				fmt.Println("scheduler:", x.err)
				failed = true
			}
			for i, r := range x.results {
				ok := r.key() == so[i].key()
				fmt.Printf("round %d thread %d same-as-alone=%v err=%q panic=%q\n", round, i, ok, r.Err, firstLine(r.Panic))
				if !ok {
					failed = true
					fmt.Printf("   concurrent: %q\n   alone:      %q\n", r.Out, so[i].Out)
				}
			}
			if round == 0 {
				first = x.results
			} else {
				for i := range first {
					if first[i].key() != x.results[i].key() {
						fmt.Println("REPLAY NOT DETERMINISTIC for thread", i)
						os.Exit(3)
					}
				}
			}
		}
		if failed {
			os.Exit(1)
		}
	case "race":
		reps, _ := strconv.Atoi(os.Args[2])
		verifsched.SetHook(nil)
		bad, known := 0, 0
		for _, sc := range scenarios {
			so := solo(sc)
			pf, err := patch.Parse("s.patch", []byte(sc.Patch))
			if err != nil {
				fatal("scenario patch rejected: %v", err)
			}
			var wg sync.WaitGroup
			var mu sync.Mutex
			for g := 0; g < 4; g++ {
				wg.Add(1)
				go func(g int) {
					defer wg.Done()
					for r := 0; r < reps; r++ {
						i := (g + r) % len(sc.Files)
						res := applyOne(pf, fmt.Sprintf("f%d.go", i), sc.Files[i])
						if res.key() != so[i].key() && sc.Name == "position-beyond-end-of-file" {
							// the known finding of that scenario (the schedule exploration reports it under
							// its own key); this pass looks for data races there, not for the mismatch
							mu.Lock()
							known++
							mu.Unlock()
							continue
						}
						if res.key() != so[i].key() {
							mu.Lock()
							if bad < 3 {
								fmt.Printf("MISMATCH scenario %s file %d: out=%q err=%q panic=%q\n", sc.Name, i, res.Out, res.Err, firstLine(res.Panic))
							}
							bad++
							mu.Unlock()
						}
					}
				}(g)
			}
			wg.Wait()
		}
		fmt.Printf("race pass: %d scenarios x 4 goroutines x %d repetitions, mismatches=%d (and %d of the known kind in scenario position-beyond-end-of-file)\n", len(scenarios), reps, bad, known)
		if bad > 0 {
			os.Exit(1)
		}
	default:
		fatal("unknown command %q", os.Args[1])
	}
	_ = bytes.Equal
}
