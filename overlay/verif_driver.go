// This file is NOT part of uber-go/gopatch. It is added to the build of
// package main by `go build -overlay` (see /verif/check) and never written
// into /repo. When VERIF_DRIVER=1 the resulting binary serves CLI
// invocations in-process (one JSON request per line on stdin, one JSON
// response per line on stdout) by calling the unmodified mainCmd.Run, the
// same way e2e_test.go does; otherwise it behaves exactly like gopatch.
package main

import (
	"bufio"
	"bytes"
	"encoding/json"
	"fmt"
	"io"
	"os"
	"runtime/debug"
)

type verifReq struct {
	Cwd   string   `json:"cwd"`
	Args  []string `json:"args"`
	Stdin string   `json:"stdin"`
}

type verifResp struct {
	Stdout string `json:"stdout"`
	Stderr string `json:"stderr"`
	Exit   int    `json:"exit"`
	Panic  string `json:"panic,omitempty"`
}

func init() {
	if os.Getenv("VERIF_DRIVER") != "1" {
		return
	}
	in := bufio.NewReaderSize(os.Stdin, 1<<20)
	out := bufio.NewWriter(os.Stdout)
	realStderr := os.Stderr
	// whatever gopatch code writes to the process-wide os.Stdout / os.Stderr (instead of mainCmd's writers) is
	// collected in two scratch files and reported in front of the captured streams, where the real binary shows it
	verifStray[0], _ = os.CreateTemp("", "verif-stray-out")
	verifStray[1], _ = os.CreateTemp("", "verif-stray-err")
	for _, f := range verifStray {
		if f != nil {
			os.Remove(f.Name())
		}
	}
	if verifStray[0] != nil && verifStray[1] != nil {
		os.Stdout, os.Stderr = verifStray[0], verifStray[1]
	}
	for {
		line, err := in.ReadBytes('\n')
		if len(line) > 0 {
			var req verifReq
			if jerr := json.Unmarshal(line, &req); jerr != nil {
				fmt.Fprintln(realStderr, "verif driver: bad request:", jerr)
				os.Exit(2)
			}
			resp := verifServe(&req)
			b, _ := json.Marshal(resp)
			out.Write(b)
			out.WriteByte('\n')
			out.Flush()
		}
		if err != nil {
			os.Exit(0)
		}
	}
}

var verifStray [2]*os.File

// verifTakeStray returns and discards what has been written to a scratch file since the last call.
func verifTakeStray(f *os.File) string {
	if f == nil {
		return ""
	}
	n, err := f.Seek(0, io.SeekCurrent)
	if err != nil || n == 0 {
		return ""
	}
	b := make([]byte, n)
	f.ReadAt(b, 0)
	f.Truncate(0)
	f.Seek(0, io.SeekStart)
	return string(b)
}

func verifServe(req *verifReq) (resp verifResp) {
	var stdout, stderr bytes.Buffer
	defer func() {
		if r := recover(); r != nil {
			resp.Panic = fmt.Sprintf("%v\n%s", r, debug.Stack())
			resp.Exit = 2
		}
		resp.Stdout = verifTakeStray(verifStray[0]) + stdout.String()
		resp.Stderr = verifTakeStray(verifStray[1]) + stderr.String()
	}()
	cmd := mainCmd{
		Stdin:  bytes.NewReader([]byte(req.Stdin)),
		Stdout: &stdout,
		Stderr: &stderr,
		Getwd:  func() (string, error) { return req.Cwd, nil },
	}
	// mirrors runMain
	if err := cmd.Run(req.Args); err != nil {
		fmt.Fprintln(cmd.Stderr, err)
		resp.Exit = 1
	}
	return resp
}
