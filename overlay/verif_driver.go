// This file is NOT part of uber-go/gopatch. It is added to the build of
// package main by `go build -overlay` (see /verif/check) and never written
// into /repo. When VERIF_DRIVER=1 the resulting binary serves CLI
// invocations in-process (one JSON request per line on stdin, one JSON
// response per line on stdout) by calling the unmodified mainCmd.Run, the
// same way e2e_test.go does; otherwise it behaves exactly like gopatch.
package main

import (
	"bufio"
	"bytes"
	"encoding/json"
	"fmt"
	"os"
	"runtime/debug"
)

type verifReq struct {
	Cwd   string   `json:"cwd"`
	Args  []string `json:"args"`
	Stdin string   `json:"stdin"`
}

type verifResp struct {
	Stdout string `json:"stdout"`
	Stderr string `json:"stderr"`
	Exit   int    `json:"exit"`
	Panic  string `json:"panic,omitempty"`
}

func init() {
	if os.Getenv("VERIF_DRIVER") != "1" {
		return
	}
	in := bufio.NewReaderSize(os.Stdin, 1<<20)
	out := bufio.NewWriter(os.Stdout)
	for {
		line, err := in.ReadBytes('\n')
		if len(line) > 0 {
			var req verifReq
			if jerr := json.Unmarshal(line, &req); jerr != nil {
				fmt.Fprintln(os.Stderr, "verif driver: bad request:", jerr)
				os.Exit(2)
			}
			resp := verifServe(&req)
			b, _ := json.Marshal(resp)
			out.Write(b)
			out.WriteByte('\n')
			out.Flush()
		}
		if err != nil {
			os.Exit(0)
		}
	}
}

func verifServe(req *verifReq) (resp verifResp) {
	var stdout, stderr bytes.Buffer
	defer func() {
		if r := recover(); r != nil {
			resp.Panic = fmt.Sprintf("%v\n%s", r, debug.Stack())
			resp.Exit = 2
		}
		resp.Stdout = stdout.String()
		resp.Stderr = stderr.String()
	}()
	cmd := mainCmd{
		Stdin:  bytes.NewReader([]byte(req.Stdin)),
		Stdout: &stdout,
		Stderr: &stderr,
		Getwd:  func() (string, error) { return req.Cwd, nil },
	}
	// mirrors runMain
	if err := cmd.Run(req.Args); err != nil {
		fmt.Fprintln(cmd.Stderr, err)
		resp.Exit = 1
	}
	return resp
}
