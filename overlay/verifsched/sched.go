// Package verifsched is NOT part of uber-go/gopatch. It exists only in builds
// made with `go build -overlay` by /verif (see /verif/mc/cmd/instrument): the
// instrumented copies of the gopatch sources call Point() at every yield
// point, and the schedule explorer decides there which logical thread runs.
package verifsched

var hook func()

// SetHook installs the scheduler callback (nil: Point is a no-op).
func SetHook(f func()) { hook = f }

// Point is a scheduling point.
func Point() {
	if h := hook; h != nil {
		h()
	}
}
